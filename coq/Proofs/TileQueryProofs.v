(** Lemmas for property C12 (tile queries and dependency graphs are complete). *)
From Coq Require Import ZArith QArith Qround Qabs List Bool Lia Lqa.
From OG Require Import Base.Result Base.QZ Base.QMinMax Base.ZRange Model.TileQuery.
Import ListNotations.
Open Scope Z_scope.

(** * offsets of a valid axis *)
Definition zsum (l : list Z) : Z := fold_right Z.add 0 l.

Definition ax_ok (a : axis) : Prop :=
  match a with
  | AReg N n => 1 <= N /\ 1 <= n
  | AVar ch => Forall (fun c => 0 <= c) ch /\ 1 <= zsum ch
  end.

(** start of tile [k] (and end of tile [k-1]) *)
Definition ax_off (a : axis) (k : Z) : Z :=
  match a with
  | AReg N n => Z.min (k * n) N
  | AVar ch => zsum (firstn (Z.to_nat k) ch)
  end.

(** ** variable tilings: prefix sums *)
Lemma nth_cumsum ch : forall acc k, (k < length ch)%nat ->
  nth k (cumsum acc ch) 0 = acc + zsum (firstn (S k) ch).
Proof.
  induction ch as [|c r IH]; intros acc k Hk; simpl in Hk; [lia|].
  destruct k as [|k]; simpl.
  - destruct r; simpl; lia.
  - rewrite IH by lia. simpl. lia.
Qed.

Lemma cumsum_length ch : forall acc, length (cumsum acc ch) = length ch.
Proof. induction ch; intros; simpl; auto. Qed.

Lemma nth_offsets ch k : (k <= length ch)%nat -> nth k (offsets ch) 0 = zsum (firstn k ch).
Proof.
  intros Hk. unfold offsets. destruct k as [|k]; [reflexivity|].
  simpl nth. rewrite nth_cumsum by lia. lia.
Qed.

Lemma last_cumsum ch : forall acc, last (acc :: cumsum acc ch) 0 = acc + zsum ch.
Proof.
  induction ch as [|c r IH]; intros acc; [simpl; lia|].
  change (cumsum acc (c :: r)) with ((acc + c) :: cumsum (acc + c) r).
  change (last (acc :: (acc + c) :: cumsum (acc + c) r) 0) with (last ((acc + c) :: cumsum (acc + c) r) 0).
  rewrite IH. simpl. lia.
Qed.

Lemma var_base ch : ax_base (AVar ch) = zsum ch.
Proof. unfold ax_base, offsets. rewrite last_cumsum. lia. Qed.

Lemma zsum_nonneg l : Forall (fun c => 0 <= c) l -> 0 <= zsum l.
Proof. induction 1; simpl; lia. Qed.

Lemma firstn_Forall {A} (P : A -> Prop) l n : Forall P l -> Forall P (firstn n l).
Proof.
  intros H. revert n. induction H; intros [|n]; simpl; constructor; auto.
Qed.

Lemma psum_mono ch : Forall (fun c => 0 <= c) ch -> forall j k, (j <= k)%nat ->
  zsum (firstn j ch) <= zsum (firstn k ch).
Proof.
  induction 1 as [|c r Hc Hr IH]; intros j k Hjk.
  - destruct j, k; simpl; lia.
  - destruct j as [|j]; destruct k as [|k]; simpl; try lia.
    + pose proof (zsum_nonneg _ (firstn_Forall _ _ k Hr)). lia.
    + specialize (IH j k). lia.
Qed.

Lemma cumsum_ge ch : Forall (fun c => 0 <= c) ch -> forall acc o, In o (cumsum acc ch) -> acc <= o.
Proof.
  induction 1 as [|c r Hc Hr IH]; intros acc o Ho; simpl in Ho; [contradiction|].
  destruct Ho as [<- | Ho]; [lia|]. apply IH in Ho. lia.
Qed.

Lemma filter_none {A} (f : A -> bool) l : (forall x, In x l -> f x = false) -> filter f l = [].
Proof.
  induction l as [|a l IH]; intros H; simpl; [reflexivity|].
  rewrite (H a (or_introl eq_refl)). apply IH. intros x Hx. apply H. right. exact Hx.
Qed.

(** [np.searchsorted(cumsum, p, "right")] finds the chunk containing [p] *)
Lemma searchsorted_spec ch : Forall (fun c => 0 <= c) ch -> forall acc p,
  acc <= p < acc + zsum ch ->
  let j := length (filter (fun o => o <=? p) (cumsum acc ch)) in
  (j < length ch)%nat /\ acc + zsum (firstn j ch) <= p < acc + zsum (firstn (S j) ch).
Proof.
  induction 1 as [|c r Hc Hr IH]; intros acc p Hp; cbv zeta; simpl in Hp; [lia|].
  change (cumsum acc (c :: r)) with ((acc + c) :: cumsum (acc + c) r).
  cbn [filter]. destruct (acc + c <=? p) eqn:E.
  - apply Z.leb_le in E. cbn [length].
    destruct (IH (acc + c) p) as [L B]; [lia|]. cbv zeta in L, B.
    split; [simpl; lia|]. simpl firstn. simpl zsum. simpl zsum in B. lia.
  - apply Z.leb_gt in E.
    assert (F : filter (fun o => o <=? p) (cumsum (acc + c) r) = []).
    { apply filter_none. intros o Ho. apply (cumsum_ge r Hr) in Ho. apply Z.leb_gt. lia. }
    rewrite F. simpl. lia.
Qed.

(** ** facts about the offsets of a valid axis *)
Lemma reg_count N n : 1 <= N -> 1 <= n ->
  let c := ax_count (AReg N n) in 1 <= c /\ (c - 1) * n < N <= c * n.
Proof.
  intros HN Hn. cbv zeta. unfold ax_count.
  pose proof (Z.div_mod (- N) n ltac:(lia)) as D.
  pose proof (Z.mod_pos_bound (- N) n ltac:(lia)) as B.
  set (q := (- N) / n) in *. set (r := (- N) mod n) in *. nia.
Qed.

Lemma count_pos a : ax_ok a -> 1 <= ax_count a.
Proof.
  destruct a as [N n | ch]; simpl.
  - intros [HN Hn]. apply (reg_count N n HN Hn).
  - intros [Hc Hs]. destruct ch; simpl in *; lia.
Qed.

Lemma off_0 a : ax_ok a -> ax_off a 0 = 0.
Proof. destruct a as [N n | ch]; simpl; intros H; [lia | reflexivity]. Qed.

Lemma off_count a : ax_ok a -> ax_off a (ax_count a) = ax_base a.
Proof.
  destruct a as [N n | ch]; intros H.
  - destruct H as [HN Hn]. pose proof (reg_count N n HN Hn) as [_ B]. cbv zeta in B.
    unfold ax_off, ax_base. lia.
  - rewrite var_base. unfold ax_off, ax_count. rewrite Nat2Z.id, firstn_all. reflexivity.
Qed.

Lemma off_mono a j k : ax_ok a -> 0 <= j <= k -> ax_off a j <= ax_off a k.
Proof.
  destruct a as [N n | ch]; intros H Hjk.
  - destruct H as [HN Hn]. unfold ax_off. assert (j * n <= k * n) by nia. lia.
  - destruct H as [Hc _]. unfold ax_off. apply psum_mono; [exact Hc | lia].
Qed.

Lemma off_nonneg a k : ax_ok a -> 0 <= k -> 0 <= ax_off a k.
Proof.
  intros H Hk. rewrite <- (off_0 a H). apply off_mono; [exact H | lia].
Qed.

Lemma off_le_base a k : ax_ok a -> 0 <= k <= ax_count a -> ax_off a k <= ax_base a.
Proof.
  intros H Hk. rewrite <- (off_count a H). apply off_mono; [exact H | lia].
Qed.

Lemma range_off a k : ax_ok a -> 0 <= k < ax_count a ->
  ax_range a k = Ok (ax_off a k, ax_off a (k + 1)).
Proof.
  destruct a as [N n | ch]; intros H Hk.
  - destruct H as [HN Hn]. pose proof (reg_count N n HN Hn) as [_ B]. cbv zeta in B.
    unfold ax_range. set (c := ax_count (AReg N n)) in *.
    replace (k <? 0) with false by (symmetry; apply Z.ltb_ge; lia).
    assert (K : k * n <= (c - 1) * n) by nia.
    replace (0 <=? k * n) with true by (symmetry; apply Z.leb_le; nia).
    replace (k * n <? N) with true by (symmetry; apply Z.ltb_lt; lia).
    replace ((k + 1) * n <? N + n) with true by (symmetry; apply Z.ltb_lt; lia).
    simpl. unfold ax_off. f_equal. f_equal; lia.
  - destruct H as [Hc _]. unfold ax_range. set (c := ax_count (AVar ch)) in *.
    replace (k <? 0) with false by (symmetry; apply Z.ltb_ge; lia).
    replace (0 <=? k) with true by (symmetry; apply Z.leb_le; lia).
    replace (k <? c) with true by (symmetry; apply Z.ltb_lt; lia).
    simpl. unfold znth, ax_off. unfold c, ax_count in Hk.
    rewrite !nth_offsets by lia. reflexivity.
Qed.

Lemma bounds_check_false p N : 0 <= p < N -> (p <? 0) || (p >=? N) = false.
Proof.
  intros H. apply orb_false_iff. split; [apply Z.ltb_ge; lia|].
  rewrite Z.geb_leb. apply Z.leb_gt. lia.
Qed.

Lemma locate_off a p : ax_ok a -> 0 <= p < ax_base a ->
  exists j, ax_locate a p = Ok j /\ 0 <= j < ax_count a /\ ax_off a j <= p < ax_off a (j + 1).
Proof.
  destruct a as [N n | ch]; intros H Hp; unfold ax_locate.
  - rewrite (bounds_check_false p _ Hp).
    destruct H as [HN Hn]. pose proof (reg_count N n HN Hn) as [C1 B]. cbv zeta in B.
    unfold ax_tile0. set (c := ax_count (AReg N n)) in *. simpl ax_base in Hp.
    destruct (0 <? c - 1) eqn:E1.
    + apply Z.ltb_lt in E1. simpl. exists (p / n). split; [reflexivity|].
      pose proof (Z.div_mod p n ltac:(lia)) as D. pose proof (Z.mod_pos_bound p n ltac:(lia)) as M.
      set (q := p / n) in *. set (r := p mod n) in *. unfold ax_off.
      assert (0 <= q) by nia. assert (q < c) by nia. lia.
    + apply Z.ltb_ge in E1. assert (c = 1) by lia.
      replace (0 =? c - 1) with true by (symmetry; apply Z.eqb_eq; lia).
      simpl. rewrite Z.sub_0_r. exists (p / N). split; [reflexivity|].
      rewrite Z.div_small by lia. unfold ax_off. lia.
  - destruct H as [Hc Hs]. rewrite var_base in *.
    rewrite (bounds_check_false p _ Hp).
    unfold offsets. cbn [tl].
    destruct (searchsorted_spec ch Hc 0 p ltac:(lia)) as [L B]. cbv zeta in L, B.
    set (j := length (filter (fun o => o <=? p) (cumsum 0 ch))) in *.
    exists (Z.of_nat j). split; [reflexivity|]. unfold ax_count, ax_off.
    replace (Z.to_nat (Z.of_nat j + 1)) with (S j) by lia. rewrite Nat2Z.id. lia.
Qed.

(** the tile found by [locate] is at or after tile [k] iff the pixel is at or after the start of [k] *)
Lemma locate_ge a p j k : ax_ok a -> 0 <= j < ax_count a -> 0 <= k <= ax_count a ->
  ax_off a j <= p < ax_off a (j + 1) -> ax_off a k <= p -> k <= j.
Proof.
  intros H Hj Hk Hp Hkp. destruct (Z_le_gt_dec k j) as [L|G]; [exact L|].
  pose proof (off_mono a (j + 1) k H ltac:(lia)). lia.
Qed.

Lemma locate_le a p j k : ax_ok a -> 0 <= j < ax_count a -> 0 <= k < ax_count a ->
  ax_off a j <= p < ax_off a (j + 1) -> p < ax_off a (k + 1) -> j <= k.
Proof.
  intros H Hj Hk Hp Hkp. destruct (Z_le_gt_dec j k) as [L|G]; [exact L|].
  pose proof (off_mono a (k + 1) j H ltac:(lia)). lia.
Qed.

(** * pixel-space bounding box queries *)
Lemma clamp_spec x lo up : lo <= up -> clamp x lo up = Ok (Z.max lo (Z.min x up)).
Proof.
  intros H. unfold clamp. replace (up <? lo) with false by (symmetry; apply Z.ltb_ge; lia).
  destruct (x <? lo) eqn:E1.
  - apply Z.ltb_lt in E1. f_equal. lia.
  - apply Z.ltb_ge in E1. destruct (x >? up) eqn:E2.
    + apply Z.gtb_lt in E2. f_equal. lia.
    + rewrite Z.gtb_ltb in E2. apply Z.ltb_ge in E2. f_equal. lia.
Qed.

(** one axis of range_from_bbox: the located tiles bracket every non-empty tile
    that meets the open interval (a1, a2) *)
Lemma axis_query a N a1 a2 : ax_ok a -> ax_base a = N ->
  exists c1 c2 j1 j2,
    clamp_span a1 a2 N = Ok (c1, c2) /\ 0 <= c1 < N /\ 0 <= c2 < N /\
    ax_locate a c1 = Ok j1 /\ ax_locate a c2 = Ok j2 /\
    0 <= j1 < ax_count a /\ 0 <= j2 < ax_count a /\
    (forall k, 0 <= k < ax_count a -> ax_off a k < ax_off a (k + 1) ->
               (inject_Z (ax_off a k) < a2)%Q -> (a1 < inject_Z (ax_off a (k + 1)))%Q ->
               j1 <= k <= j2) /\
    ((0 < a2)%Q -> (a1 < inject_Z N)%Q -> forall k, j1 <= k <= j2 ->
               (inject_Z (ax_off a k) < a2)%Q /\ (a1 < inject_Z (ax_off a (k + 1)))%Q).
Proof.
  intros H HN.
  assert (N1 : 1 <= N).
  { rewrite <- HN. destruct a as [n0 n | ch].
    - simpl in *. lia.
    - rewrite var_base. simpl in H. lia. }
  unfold clamp_span.
  rewrite (clamp_spec (Qfloor a1) 0 (N - 1)) by lia.
  rewrite (clamp_spec (Qceiling a2) 1 N) by lia. cbn [bind].
  set (c1 := Z.max 0 (Z.min (Qfloor a1) (N - 1))).
  set (c2' := Z.max 1 (Z.min (Qceiling a2) N)).
  destruct (locate_off a c1 H ltac:(unfold c1; lia)) as (j1 & F1 & J1 & P1).
  destruct (locate_off a (c2' - 1) H ltac:(unfold c2'; lia)) as (j2 & F2 & J2 & P2).
  exists c1, (c2' - 1), j1, j2.
  split; [reflexivity|]. split; [unfold c1; lia|]. split; [unfold c2'; lia|]. split; [exact F1|]. split; [exact F2|].
  split; [exact J1|]. split; [exact J2|]. split.
  2:{ intros Pos Lt k Hk.
      assert (F0 : Qfloor a1 < N) by (apply Qfloor_lt_iff; exact Lt).
      assert (C0 : 0 < Qceiling a2) by (apply Qceiling_gt_iff; exact Pos).
      pose proof (off_mono a k j2 H ltac:(lia)) as M1.
      pose proof (off_mono a (j1 + 1) (k + 1) H ltac:(lia)) as M2.
      split.
      - apply Qceiling_gt_iff. unfold c2' in *. lia.
      - apply Qfloor_lt_iff. unfold c1 in *. lia. }
  intros k Hk Hne Hlo Hhi.
  pose proof (off_nonneg a k H ltac:(lia)) as K0.
  pose proof (off_le_base a (k + 1) H ltac:(lia)) as K1. rewrite HN in K1.
  split.
  - (* j1 <= k : c1 < off (k+1) *)
    apply (locate_le a c1 j1 k H J1 Hk P1).
    assert (Hf : Qfloor a1 < ax_off a (k + 1)) by (apply Qfloor_lt_iff; exact Hhi).
    unfold c1. lia.
  - (* k <= j2 : off k <= c2 *)
    apply (locate_ge a (c2' - 1) j2 k H J2 ltac:(lia) P2).
    assert (Hc : ax_off a k < Qceiling a2) by (apply Qceiling_gt_iff; exact Hlo).
    unfold c2'. lia.
Qed.

Definition tiling_ok (t : tiling) (NY NX : Z) : Prop :=
  ax_ok (t_y t) /\ ax_ok (t_x t) /\ ax_base (t_y t) = NY /\ ax_base (t_x t) = NX.

Lemma locate_2d t y x jy jx : 0 <= y < ax_base (t_y t) -> 0 <= x < ax_base (t_x t) ->
  ax_locate (t_y t) y = Ok jy -> ax_locate (t_x t) x = Ok jx -> locate t y x = Ok (jy, jx).
Proof.
  intros Hy Hx Ey Ex. unfold locate.
  pose proof (bounds_check_false y _ Hy) as By. pose proof (bounds_check_false x _ Hx) as Bx.
  apply orb_false_iff in By. apply orb_false_iff in Bx.
  destruct By as [-> ->]. destruct Bx as [-> ->]. simpl. rewrite Ey, Ex. reflexivity.
Qed.

(** range_from_bbox never fails on a valid tiling and returns ranges that contain
    every non-empty tile meeting the interior of the box *)
Lemma range_complete t NY NX bx1 by1 bx2 by2 : tiling_ok t NY NX ->
  exists y1 y2 x1 x2,
    range_from_pix_bbox t NY NX (bx1, by1, bx2, by2) = Ok ((y1, y2), (x1, x2)) /\
    0 <= y1 /\ y2 <= ax_count (t_y t) /\ 0 <= x1 /\ x2 <= ax_count (t_x t) /\
    (forall k, 0 <= k < ax_count (t_y t) -> ax_off (t_y t) k < ax_off (t_y t) (k + 1) ->
               (inject_Z (ax_off (t_y t) k) < by2)%Q -> (by1 < inject_Z (ax_off (t_y t) (k + 1)))%Q ->
               y1 <= k < y2) /\
    (forall k, 0 <= k < ax_count (t_x t) -> ax_off (t_x t) k < ax_off (t_x t) (k + 1) ->
               (inject_Z (ax_off (t_x t) k) < bx2)%Q -> (bx1 < inject_Z (ax_off (t_x t) (k + 1)))%Q ->
               x1 <= k < x2) /\
    ((0 < by2)%Q -> (by1 < inject_Z NY)%Q -> forall k, y1 <= k < y2 ->
               (inject_Z (ax_off (t_y t) k) < by2)%Q /\ (by1 < inject_Z (ax_off (t_y t) (k + 1)))%Q) /\
    ((0 < bx2)%Q -> (bx1 < inject_Z NX)%Q -> forall k, x1 <= k < x2 ->
               (inject_Z (ax_off (t_x t) k) < bx2)%Q /\ (bx1 < inject_Z (ax_off (t_x t) (k + 1)))%Q).
Proof.
  intros (Hy & Hx & By & Bx).
  destruct (axis_query (t_x t) NX bx1 bx2 Hx Bx) as (cx1 & cx2 & jx1 & jx2 & Ex & Rx1 & Rx2 & Lx1 & Lx2 & Jx1 & Jx2 & Cx & Sx).
  destruct (axis_query (t_y t) NY by1 by2 Hy By) as (cy1 & cy2 & jy1 & jy2 & Ey & Ry1 & Ry2 & Ly1 & Ly2 & Jy1 & Jy2 & Cy & Sy).
  unfold range_from_pix_bbox. rewrite Ex. cbn [bind]. rewrite Ey. cbn [bind].
  rewrite (locate_2d t cy1 cx1 jy1 jx1) by (try lia; assumption). cbn [bind].
  rewrite (locate_2d t cy2 cx2 jy2 jx2) by (try lia; assumption). cbn [bind].
  exists jy1, (jy2 + 1), jx1, (jx2 + 1). split; [reflexivity|].
  split; [lia|]. split; [lia|]. split; [lia|]. split; [lia|]. split; [|split; [|split]].
  - intros k A B C D. specialize (Cy k A B C D). lia.
  - intros k A B C D. specialize (Cx k A B C D). lia.
  - intros A B k Hk. apply (Sy A B). lia.
  - intros A B k Hk. apply (Sx A B). lia.
Qed.

Lemma tiles_from_pix_bbox_In t NY NX b yy xx :
  range_from_pix_bbox t NY NX b = Ok (yy, xx) ->
  exists l, tiles_from_pix_bbox t NY NX b = Ok l /\
            forall iy ix, In (iy, ix) l <-> (fst yy <= iy < snd yy /\ fst xx <= ix < snd xx).
Proof.
  intros E. unfold tiles_from_pix_bbox. rewrite E. cbn [bind]. eexists. split; [reflexivity|].
  intros iy ix. rewrite zproduct_In, !zrange_In. reflexivity.
Qed.

(** completeness of the pixel-box query in terms of tile rectangles *)
Lemma pix_query_complete t NY NX bx1 by1 bx2 by2 : tiling_ok t NY NX ->
  exists l, tiles_from_pix_bbox t NY NX (bx1, by1, bx2, by2) = Ok l /\
    (forall iy ix, In (iy, ix) l -> 0 <= iy < ax_count (t_y t) /\ 0 <= ix < ax_count (t_x t)) /\
    (forall iy ix ylo yhi xlo xhi,
        0 <= iy < ax_count (t_y t) -> 0 <= ix < ax_count (t_x t) ->
        ax_range (t_y t) iy = Ok (ylo, yhi) -> ax_range (t_x t) ix = Ok (xlo, xhi) ->
        ylo < yhi -> xlo < xhi ->
        (inject_Z xlo < bx2)%Q -> (bx1 < inject_Z xhi)%Q ->
        (inject_Z ylo < by2)%Q -> (by1 < inject_Z yhi)%Q ->
        In (iy, ix) l) /\
    ((0 < by2)%Q -> (by1 < inject_Z NY)%Q -> (0 < bx2)%Q -> (bx1 < inject_Z NX)%Q ->
     forall iy ix, In (iy, ix) l ->
        (inject_Z (ax_off (t_y t) iy) < by2)%Q /\ (by1 < inject_Z (ax_off (t_y t) (iy + 1)))%Q /\
        (inject_Z (ax_off (t_x t) ix) < bx2)%Q /\ (bx1 < inject_Z (ax_off (t_x t) (ix + 1)))%Q).
Proof.
  intros Ht. pose proof Ht as (Hy & Hx & By & Bx).
  destruct (range_complete t NY NX bx1 by1 bx2 by2 Ht) as (y1 & y2 & x1 & x2 & E & Y1 & Y2 & X1 & X2 & Cy & Cx & Sy & Sx).
  destruct (tiles_from_pix_bbox_In _ _ _ _ _ _ E) as (l & El & Hl).
  exists l. split; [exact El|]. simpl in Hl. split; [|split].
  - intros iy ix Hin. apply Hl in Hin. lia.
  - intros iy ix ylo yhi xlo xhi Hiy Hix Ry Rx Ny Nx A1 A2 A3 A4.
    rewrite (range_off _ _ Hy Hiy) in Ry. rewrite (range_off _ _ Hx Hix) in Rx.
    inversion Ry; subst ylo yhi. inversion Rx; subst xlo xhi.
    apply Hl. split; [apply Cy | apply Cx]; assumption.
  - intros A1 A2 A3 A4 iy ix Hin. apply Hl in Hin. destruct Hin as [Hiy Hix].
    destruct (Sy A1 A2 iy Hiy). destruct (Sx A3 A4 ix Hix). auto.
Qed.

(** * geometry queries *)
Lemma tiles_query_spec {P : Type} (pb : P -> res q4) (dj : P -> Z * Z -> bool) t NY NX q l :
  tiles_query pb dj t NY NX q = Ok l ->
  exists b cand, pb q = Ok b /\ tiles_from_pix_bbox t NY NX b = Ok cand /\
                 forall idx, In idx l <-> (In idx cand /\ dj q idx = false).
Proof.
  unfold tiles_query. intros H.
  apply bind_ok in H. destruct H as (b & Eb & H).
  apply bind_ok in H. destruct H as (cand & Ec & H). inversion H; subst l.
  exists b, cand. split; [exact Eb|]. split; [exact Ec|].
  intros idx. rewrite filter_In, negb_true_iff. reflexivity.
Qed.

Lemma tiles_query_ok {P : Type} (pb : P -> res q4) (dj : P -> Z * Z -> bool) t NY NX q b :
  tiling_ok t NY NX -> pb q = Ok b -> exists l, tiles_query pb dj t NY NX q = Ok l.
Proof.
  intros Ht Eb. unfold tiles_query. rewrite Eb. cbn [bind].
  destruct b as [[[bx1 by1] bx2] by2].
  destruct (pix_query_complete t NY NX bx1 by1 bx2 by2 Ht) as (l & El & _).
  rewrite El. cbn [bind]. eauto.
Qed.

(** * res_map *)
Lemma res_map_ok {A B} (f : A -> res B) l :
  (forall a, In a l -> exists b, f a = Ok b) -> exists bs, res_map f l = Ok bs.
Proof.
  induction l as [|a l IH]; intros H; simpl; [eauto|].
  destruct (H a (or_introl eq_refl)) as [b Eb]. rewrite Eb. cbn [bind].
  destruct IH as [bs Ebs]; [intros x Hx; apply H; right; exact Hx|].
  rewrite Ebs. cbn [bind]. eauto.
Qed.

Lemma res_map_In {A B} (f : A -> res B) l bs : res_map f l = Ok bs ->
  forall b, In b bs <-> exists a, In a l /\ f a = Ok b.
Proof.
  revert bs. induction l as [|a l IH]; intros bs H b; simpl in H.
  - inversion H; subst. simpl. split; [contradiction | intros (x & [] & _)].
  - apply bind_ok in H. destruct H as (b0 & Eb & H).
    apply bind_ok in H. destruct H as (bs0 & Ebs & H). inversion H; subst bs. simpl.
    rewrite (IH bs0 Ebs b). split.
    + intros [<- | (x & Hx & Ex)]; [exists a; auto | exists x; auto].
    + intros (x & [<- | Hx] & Ex); [left; congruence | right; eauto].
Qed.

(** * linear dependency graph *)
Definition fmap (s t : Q) (x : Z) : Q := (s * inject_Z x + t)%Q.

Lemma bbox_round_contains A x0 y0 x1 y1 :
  let '(bl, bb, br, bt) := bbox_round (bbox_transform A (x0, y0, x1, y1)) in
  (inject_Z bl <= qmin (fmap (a_sx A) (a_tx A) x0) (fmap (a_sx A) (a_tx A) x1))%Q /\
  (qmax (fmap (a_sx A) (a_tx A) x0) (fmap (a_sx A) (a_tx A) x1) <= inject_Z br)%Q /\
  (inject_Z bb <= qmin (fmap (a_sy A) (a_ty A) y0) (fmap (a_sy A) (a_ty A) y1))%Q /\
  (qmax (fmap (a_sy A) (a_ty A) y0) (fmap (a_sy A) (a_ty A) y1) <= inject_Z bt)%Q.
Proof.
  unfold bbox_round, bbox_transform, fmap.
  set (u0 := (a_sx A * inject_Z x0 + a_tx A)%Q). set (u1 := (a_sx A * inject_Z x1 + a_tx A)%Q).
  set (v0 := (a_sy A * inject_Z y0 + a_ty A)%Q). set (v1 := (a_sy A * inject_Z y1 + a_ty A)%Q).
  destruct (min4_spec u0 u0 u1 u1) as (M1 & _ & M3 & _ & _).
  destruct (max4_spec u0 u0 u1 u1) as (X1 & _ & X3 & _ & _).
  destruct (min4_spec v0 v1 v0 v1) as (N1 & N2 & _ & _ & _).
  destruct (max4_spec v0 v1 v0 v1) as (Y1 & Y2 & _ & _ & _).
  pose proof (Qfloor_le (min4 u0 u0 u1 u1)). pose proof (Qle_ceiling (max4 u0 u0 u1 u1)).
  pose proof (Qfloor_le (min4 v0 v1 v0 v1)). pose proof (Qle_ceiling (max4 v0 v1 v0 v1)).
  destruct (qmin_spec u0 u1) as [[? ->] | [? ->]]; destruct (qmax_spec u0 u1) as [[? ->] | [? ->]];
    destruct (qmin_spec v0 v1) as [[? ->] | [? ->]]; destruct (qmax_spec v0 v1) as [[? ->] | [? ->]];
    repeat split; lra.
Qed.

(** the rounded box is the tightest integer box: used for "no overlap => skipped" *)
Lemma bbox_round_tight A x0 y0 x1 y1 :
  let '(bl, bb, br, bt) := bbox_round (bbox_transform A (x0, y0, x1, y1)) in
  forall z : Z,
    ((qmax (fmap (a_sx A) (a_tx A) x0) (fmap (a_sx A) (a_tx A) x1) <= inject_Z z)%Q -> br <= z) /\
    ((inject_Z z <= qmin (fmap (a_sx A) (a_tx A) x0) (fmap (a_sx A) (a_tx A) x1))%Q -> z <= bl) /\
    ((qmax (fmap (a_sy A) (a_ty A) y0) (fmap (a_sy A) (a_ty A) y1) <= inject_Z z)%Q -> bt <= z) /\
    ((inject_Z z <= qmin (fmap (a_sy A) (a_ty A) y0) (fmap (a_sy A) (a_ty A) y1))%Q -> z <= bb).
Proof.
  unfold bbox_round, bbox_transform, fmap.
  set (u0 := (a_sx A * inject_Z x0 + a_tx A)%Q). set (u1 := (a_sx A * inject_Z x1 + a_tx A)%Q).
  set (v0 := (a_sy A * inject_Z y0 + a_ty A)%Q). set (v1 := (a_sy A * inject_Z y1 + a_ty A)%Q).
  intros z.
  destruct (min4_spec u0 u0 u1 u1) as (_ & _ & _ & _ & M5).
  destruct (max4_spec u0 u0 u1 u1) as (_ & _ & _ & _ & X5).
  destruct (min4_spec v0 v1 v0 v1) as (_ & _ & _ & _ & N5).
  destruct (max4_spec v0 v1 v0 v1) as (_ & _ & _ & _ & Y5).
  destruct (qmin_spec u0 u1) as [[? Eu] | [? Eu]]; destruct (qmax_spec u0 u1) as [[? Eu'] | [? Eu']];
    destruct (qmin_spec v0 v1) as [[? Ev] | [? Ev]]; destruct (qmax_spec v0 v1) as [[? Ev'] | [? Ev']];
    rewrite Eu, Eu', Ev, Ev';
    (split; [intros Hz; apply Qceiling_le_iff; destruct X5 as [E|[E|[E|E]]]; lra |
     split; [intros Hz; apply Qfloor_ge_iff; destruct M5 as [E|[E|[E|E]]]; lra |
     split; [intros Hz; apply Qceiling_le_iff; destruct Y5 as [E|[E|[E|E]]]; lra |
             intros Hz; apply Qfloor_ge_iff; destruct N5 as [E|[E|[E|E]]]; lra]]]).
Qed.

Lemma bbox_round_near A x0 y0 x1 y1 :
  let '(bl, bb, br, bt) := bbox_round (bbox_transform A (x0, y0, x1, y1)) in
  (qmin (fmap (a_sx A) (a_tx A) x0) (fmap (a_sx A) (a_tx A) x1) - 1 < inject_Z bl)%Q /\
  (inject_Z br < qmax (fmap (a_sx A) (a_tx A) x0) (fmap (a_sx A) (a_tx A) x1) + 1)%Q /\
  (qmin (fmap (a_sy A) (a_ty A) y0) (fmap (a_sy A) (a_ty A) y1) - 1 < inject_Z bb)%Q /\
  (inject_Z bt < qmax (fmap (a_sy A) (a_ty A) y0) (fmap (a_sy A) (a_ty A) y1) + 1)%Q.
Proof.
  unfold bbox_round, bbox_transform, fmap.
  set (u0 := (a_sx A * inject_Z x0 + a_tx A)%Q). set (u1 := (a_sx A * inject_Z x1 + a_tx A)%Q).
  set (v0 := (a_sy A * inject_Z y0 + a_ty A)%Q). set (v1 := (a_sy A * inject_Z y1 + a_ty A)%Q).
  destruct (min4_spec u0 u0 u1 u1) as (_ & _ & _ & _ & M5).
  destruct (max4_spec u0 u0 u1 u1) as (_ & _ & _ & _ & X5).
  destruct (min4_spec v0 v1 v0 v1) as (_ & _ & _ & _ & N5).
  destruct (max4_spec v0 v1 v0 v1) as (_ & _ & _ & _ & Y5).
  destruct (Qfloor_spec (min4 u0 u0 u1 u1)) as (f1 & Ef1 & F1a & F1b). rewrite <- Ef1.
  destruct (Qceiling_spec (max4 u0 u0 u1 u1)) as (c1 & Ec1 & C1a & C1b). rewrite <- Ec1.
  destruct (Qfloor_spec (min4 v0 v1 v0 v1)) as (f2 & Ef2 & F2a & F2b). rewrite <- Ef2.
  destruct (Qceiling_spec (max4 v0 v1 v0 v1)) as (c2 & Ec2 & C2a & C2b). rewrite <- Ec2.
  destruct (qmin_spec u0 u1) as [[? ->] | [? ->]]; destruct (qmax_spec u0 u1) as [[? ->] | [? ->]];
    destruct (qmin_spec v0 v1) as [[? ->] | [? ->]]; destruct (qmax_spec v0 v1) as [[? ->] | [? ->]];
    (split; [destruct M5 as [E|[E|[E|E]]]; lra |
     split; [destruct X5 as [E|[E|[E|E]]]; lra |
     split; [destruct N5 as [E|[E|[E|E]]]; lra | destruct Y5 as [E|[E|[E|E]]]; lra]]]).
Qed.

Lemma pix_bbox_off t NY NX iy ix : tiling_ok t NY NX ->
  0 <= iy < ax_count (t_y t) -> 0 <= ix < ax_count (t_x t) ->
  pix_bbox t (iy, ix) =
  Ok (ax_off (t_x t) ix, ax_off (t_y t) iy, ax_off (t_x t) (ix + 1), ax_off (t_y t) (iy + 1)).
Proof.
  intros (Hy & Hx & _) Hiy Hix. unfold pix_bbox.
  rewrite (range_off _ _ Hy Hiy). cbn [bind]. rewrite (range_off _ _ Hx Hix). reflexivity.
Qed.

(** mapped interval of a destination tile along one axis *)
Definition mlo (s t : Q) (x0 x1 : Z) : Q := qmin (fmap s t x0) (fmap s t x1).
Definition mhi (s t : Q) (x0 x1 : Z) : Q := qmax (fmap s t x0) (fmap s t x1).

Lemma linear_tile_complete dst src NYd NXd NYs NXs A dy dx :
  tiling_ok dst NYd NXd -> tiling_ok src NYs NXs ->
  0 <= dy < ax_count (t_y dst) -> 0 <= dx < ax_count (t_x dst) ->
  exists l, linear_deps_tile dst src NYs NXs A (dy, dx) = Ok l /\
    (forall sy sx, In (sy, sx) l -> 0 <= sy < ax_count (t_y src) /\ 0 <= sx < ax_count (t_x src)) /\
    (forall sy sx,
        0 <= sy < ax_count (t_y src) -> 0 <= sx < ax_count (t_x src) ->
        ax_off (t_y src) sy < ax_off (t_y src) (sy + 1) ->
        ax_off (t_x src) sx < ax_off (t_x src) (sx + 1) ->
        (inject_Z (ax_off (t_x src) sx) < mhi (a_sx A) (a_tx A) (ax_off (t_x dst) dx) (ax_off (t_x dst) (dx + 1)))%Q ->
        (mlo (a_sx A) (a_tx A) (ax_off (t_x dst) dx) (ax_off (t_x dst) (dx + 1)) < inject_Z (ax_off (t_x src) (sx + 1)))%Q ->
        (inject_Z (ax_off (t_y src) sy) < mhi (a_sy A) (a_ty A) (ax_off (t_y dst) dy) (ax_off (t_y dst) (dy + 1)))%Q ->
        (mlo (a_sy A) (a_ty A) (ax_off (t_y dst) dy) (ax_off (t_y dst) (dy + 1)) < inject_Z (ax_off (t_y src) (sy + 1)))%Q ->
        In (sy, sx) l) /\
    (forall sy sx, In (sy, sx) l ->
        (inject_Z (ax_off (t_x src) sx) < mhi (a_sx A) (a_tx A) (ax_off (t_x dst) dx) (ax_off (t_x dst) (dx + 1)) + 1)%Q /\
        (mlo (a_sx A) (a_tx A) (ax_off (t_x dst) dx) (ax_off (t_x dst) (dx + 1)) - 1 < inject_Z (ax_off (t_x src) (sx + 1)))%Q /\
        (inject_Z (ax_off (t_y src) sy) < mhi (a_sy A) (a_ty A) (ax_off (t_y dst) dy) (ax_off (t_y dst) (dy + 1)) + 1)%Q /\
        (mlo (a_sy A) (a_ty A) (ax_off (t_y dst) dy) (ax_off (t_y dst) (dy + 1)) - 1 < inject_Z (ax_off (t_y src) (sy + 1)))%Q).
Proof.
  intros Hd Hs Hdy Hdx. unfold linear_deps_tile.
  pose proof (bbox_round_near A (ax_off (t_x dst) dx) (ax_off (t_y dst) dy)
                (ax_off (t_x dst) (dx + 1)) (ax_off (t_y dst) (dy + 1))) as Nr.
  rewrite (pix_bbox_off dst NYd NXd dy dx Hd Hdy Hdx). cbn [bind].
  pose proof (bbox_round_contains A (ax_off (t_x dst) dx) (ax_off (t_y dst) dy)
                (ax_off (t_x dst) (dx + 1)) (ax_off (t_y dst) (dy + 1))) as C.
  destruct (bbox_round (bbox_transform A (ax_off (t_x dst) dx, ax_off (t_y dst) dy,
                                          ax_off (t_x dst) (dx + 1), ax_off (t_y dst) (dy + 1))))
    as [[[bl bb] br] bt].
  destruct C as (C1 & C2 & C3 & C4). unfold mlo, mhi.
  pose proof Hs as (Hsy & Hsx & Bsy & Bsx).
  destruct ((br <=? 0) || (bl >=? NXs) || (bt <=? 0) || (bb >=? NYs)) eqn:Skip.
  - exists []. split; [reflexivity|]. split; [intros ? ? []|]. split; [|intros ? ? []].
    intros sy sx Hsy' Hsx' Ny Nx X1 X2 Y1 Y2. exfalso.
    pose proof (off_nonneg _ sx Hsx ltac:(lia)). pose proof (off_nonneg _ sy Hsy ltac:(lia)).
    pose proof (off_le_base _ (sx + 1) Hsx ltac:(lia)). pose proof (off_le_base _ (sy + 1) Hsy ltac:(lia)).
    rewrite Bsx in *. rewrite Bsy in *.
    assert (T1 : ax_off (t_x src) sx < br) by (rewrite Zlt_Qlt; lra).
    assert (T2 : bl < ax_off (t_x src) (sx + 1)) by (rewrite Zlt_Qlt; lra).
    assert (T3 : ax_off (t_y src) sy < bt) by (rewrite Zlt_Qlt; lra).
    assert (T4 : bb < ax_off (t_y src) (sy + 1)) by (rewrite Zlt_Qlt; lra).
    apply orb_true_iff in Skip. destruct Skip as [Skip | Skip].
    + apply orb_true_iff in Skip. destruct Skip as [Skip | Skip].
      * apply orb_true_iff in Skip. destruct Skip as [Skip | Skip].
        -- apply Z.leb_le in Skip. lia.
        -- rewrite Z.geb_leb in Skip. apply Z.leb_le in Skip. lia.
      * apply Z.leb_le in Skip. lia.
    + rewrite Z.geb_leb in Skip. apply Z.leb_le in Skip. lia.
  - unfold z4_to_q4.
    destruct (pix_query_complete src NYs NXs (inject_Z bl) (inject_Z bb) (inject_Z br) (inject_Z bt) Hs)
      as (l & El & Hin & Hl & Sl).
    exists l. split; [exact El|]. split; [exact Hin|]. split.
    + intros sy sx Hsy' Hsx' Ny Nx X1 X2 Y1 Y2.
      apply (Hl sy sx _ _ _ _ Hsy' Hsx' (range_off _ _ Hsy Hsy') (range_off _ _ Hsx Hsx')); try assumption; lra.
    + apply orb_false_iff in Skip. destruct Skip as [Skip K4].
      apply orb_false_iff in Skip. destruct Skip as [Skip K3].
      apply orb_false_iff in Skip. destruct Skip as [K1 K2].
      apply Z.leb_gt in K1. apply Z.leb_gt in K3.
      rewrite Z.geb_leb in K2, K4. apply Z.leb_gt in K2. apply Z.leb_gt in K4.
      destruct Nr as (N1 & N2 & N3 & N4).
      intros sy sx Hl'.
      destruct (Sl ltac:(change 0%Q with (inject_Z 0); rewrite <- Zlt_Qlt; lia)
                   ltac:(rewrite <- Zlt_Qlt; lia)
                   ltac:(change 0%Q with (inject_Z 0); rewrite <- Zlt_Qlt; lia)
                   ltac:(rewrite <- Zlt_Qlt; lia) sy sx Hl') as (S1 & S2 & S3 & S4).
      repeat split; lra.
Qed.

(** destination tiles that map outside of the source raster get no source tiles *)
Lemma linear_tile_outside dst src NYd NXd NYs NXs A dy dx :
  tiling_ok dst NYd NXd -> 0 <= dy < ax_count (t_y dst) -> 0 <= dx < ax_count (t_x dst) ->
  ((mhi (a_sx A) (a_tx A) (ax_off (t_x dst) dx) (ax_off (t_x dst) (dx + 1)) <= 0)%Q \/
   (inject_Z NXs <= mlo (a_sx A) (a_tx A) (ax_off (t_x dst) dx) (ax_off (t_x dst) (dx + 1)))%Q \/
   (mhi (a_sy A) (a_ty A) (ax_off (t_y dst) dy) (ax_off (t_y dst) (dy + 1)) <= 0)%Q \/
   (inject_Z NYs <= mlo (a_sy A) (a_ty A) (ax_off (t_y dst) dy) (ax_off (t_y dst) (dy + 1)))%Q) ->
  linear_deps_tile dst src NYs NXs A (dy, dx) = Ok [].
Proof.
  intros Hd Hdy Hdx Out. unfold linear_deps_tile.
  rewrite (pix_bbox_off dst NYd NXd dy dx Hd Hdy Hdx). cbn [bind].
  pose proof (bbox_round_tight A (ax_off (t_x dst) dx) (ax_off (t_y dst) dy)
                (ax_off (t_x dst) (dx + 1)) (ax_off (t_y dst) (dy + 1))) as C.
  destruct (bbox_round (bbox_transform A (ax_off (t_x dst) dx, ax_off (t_y dst) dy,
                                          ax_off (t_x dst) (dx + 1), ax_off (t_y dst) (dy + 1))))
    as [[[bl bb] br] bt].
  unfold mlo, mhi in Out.
  assert (S : (br <=? 0) || (bl >=? NXs) || (bt <=? 0) || (bb >=? NYs) = true).
  { destruct Out as [O | [O | [O | O]]].
    - destruct (C 0) as (T & _). change (inject_Z 0) with 0%Q in T. specialize (T O).
      apply Z.leb_le in T. rewrite T. reflexivity.
    - destruct (C NXs) as (_ & T & _). specialize (T O).
      assert (E : (bl >=? NXs) = true) by (rewrite Z.geb_leb; apply Z.leb_le; exact T).
      rewrite E. rewrite orb_true_r. reflexivity.
    - destruct (C 0) as (_ & _ & T & _). change (inject_Z 0) with 0%Q in T. specialize (T O).
      apply Z.leb_le in T. rewrite T. rewrite orb_true_r. reflexivity.
    - destruct (C NYs) as (_ & _ & _ & T). specialize (T O).
      assert (E : (bb >=? NYs) = true) by (rewrite Z.geb_leb; apply Z.leb_le; exact T).
      rewrite E. rewrite !orb_true_r. reflexivity. }
  rewrite S. reflexivity.
Qed.

(** * graphs *)
Lemma res_map_graph (F : Z * Z -> res (list (Z * Z))) l g :
  res_map (fun idx => s <- F idx ;; Ok (idx, s)) l = Ok g ->
  map fst g = l /\ (forall d s, In (d, s) g -> In d l /\ F d = Ok s) /\
  (forall d, In d l -> exists s, In (d, s) g /\ F d = Ok s).
Proof.
  revert g. induction l as [|a l IH]; intros g H; simpl in H.
  - inversion H; subst. simpl. repeat split; try contradiction.
  - apply bind_ok in H. destruct H as ([a' s0] & E0 & H).
    apply bind_ok in E0. destruct E0 as (s1 & E1 & E0). inversion E0; subst a' s0.
    apply bind_ok in H. destruct H as (g0 & Eg & H). inversion H; subst g.
    destruct (IH g0 Eg) as (M & I1 & I2). simpl. split; [f_equal; exact M|]. split.
    + intros d s [E | Hin]; [inversion E; subst; auto | destruct (I1 d s Hin); auto].
    + intros d [<- | Hin]; [exists s1; auto | destruct (I2 d Hin) as (s & ? & ?); exists s; auto].
Qed.

Lemma all_tiles_In t iy ix :
  In (iy, ix) (all_tiles t) <-> 0 <= iy < ax_count (t_y t) /\ 0 <= ix < ax_count (t_x t).
Proof. unfold all_tiles. rewrite zproduct_In, !zrange_In. reflexivity. Qed.

Lemma linear_graph_ok dst src NYd NXd NYs NXs A :
  tiling_ok dst NYd NXd -> tiling_ok src NYs NXs ->
  exists g, grid_intersect_linear dst src NYs NXs A = Ok g /\ map fst g = all_tiles dst.
Proof.
  intros Hd Hs. unfold grid_intersect_linear.
  destruct (res_map_ok (fun idx => s <- linear_deps_tile dst src NYs NXs A idx ;; Ok (idx, s)) (all_tiles dst))
    as [g Eg].
  { intros [dy dx] Hin. apply all_tiles_In in Hin. destruct Hin as [Hy Hx].
    destruct (linear_tile_complete dst src NYd NXd NYs NXs A dy dx Hd Hs Hy Hx) as (l & El & _).
    rewrite El. cbn [bind]. eauto. }
  exists g. split; [exact Eg|]. apply (res_map_graph _ _ _ Eg).
Qed.

Lemma linear_graph_complete dst src NYd NXd NYs NXs A g dy dx sy sx :
  tiling_ok dst NYd NXd -> tiling_ok src NYs NXs ->
  grid_intersect_linear dst src NYs NXs A = Ok g ->
  0 <= dy < ax_count (t_y dst) -> 0 <= dx < ax_count (t_x dst) ->
  0 <= sy < ax_count (t_y src) -> 0 <= sx < ax_count (t_x src) ->
  ax_off (t_y src) sy < ax_off (t_y src) (sy + 1) ->
  ax_off (t_x src) sx < ax_off (t_x src) (sx + 1) ->
  (inject_Z (ax_off (t_x src) sx) < mhi (a_sx A) (a_tx A) (ax_off (t_x dst) dx) (ax_off (t_x dst) (dx + 1)))%Q ->
  (mlo (a_sx A) (a_tx A) (ax_off (t_x dst) dx) (ax_off (t_x dst) (dx + 1)) < inject_Z (ax_off (t_x src) (sx + 1)))%Q ->
  (inject_Z (ax_off (t_y src) sy) < mhi (a_sy A) (a_ty A) (ax_off (t_y dst) dy) (ax_off (t_y dst) (dy + 1)))%Q ->
  (mlo (a_sy A) (a_ty A) (ax_off (t_y dst) dy) (ax_off (t_y dst) (dy + 1)) < inject_Z (ax_off (t_y src) (sy + 1)))%Q ->
  edge g (dy, dx) (sy, sx).
Proof.
  intros Hd Hs Eg Hdy Hdx Hsy Hsx Ny Nx X1 X2 Y1 Y2.
  destruct (res_map_graph _ _ _ Eg) as (_ & _ & I2).
  destruct (I2 (dy, dx)) as (l & Hin & El); [apply all_tiles_In; auto|].
  destruct (linear_tile_complete dst src NYd NXd NYs NXs A dy dx Hd Hs Hdy Hdx) as (l' & El' & _ & C & _).
  rewrite El in El'. inversion El'; subst l'.
  exists l. split; [exact Hin|]. apply C; assumption.
Qed.

(** image of a point of [0,N] under an affine map lies between the images of 0 and N *)
Lemma fmap_between s t N x : 0 <= x <= N ->
  (mlo s t 0 N <= fmap s t x <= mhi s t 0 N)%Q.
Proof.
  intros Hx. unfold mlo, mhi, fmap. change (inject_Z 0) with 0%Q.
  assert (X0 : (0 <= inject_Z x)%Q) by (change 0%Q with (inject_Z 0); rewrite <- Zle_Qle; lia).
  assert (X1 : (inject_Z x <= inject_Z N)%Q) by (rewrite <- Zle_Qle; lia).
  set (u := inject_Z x) in *. set (n := inject_Z N) in *.
  destruct (Qlt_le_dec s 0) as [Neg | Pos].
  - assert (s * n <= s * u)%Q by nra.
    assert (s * u <= 0)%Q by nra.
    destruct (qmin_spec (s * 0 + t) (s * n + t)) as [[? ->] | [? ->]];
      destruct (qmax_spec (s * 0 + t) (s * n + t)) as [[? ->] | [? ->]]; lra.
  - assert (s * u <= s * n)%Q by nra.
    assert (0 <= s * u)%Q by nra.
    destruct (qmin_spec (s * 0 + t) (s * n + t)) as [[? ->] | [? ->]];
      destruct (qmax_spec (s * 0 + t) (s * n + t)) as [[? ->] | [? ->]]; lra.
Qed.

Lemma tile_image_inside s t N x0 x1 : 0 <= x0 <= N -> 0 <= x1 <= N ->
  (mlo s t 0 N <= mlo s t x0 x1)%Q /\ (mhi s t x0 x1 <= mhi s t 0 N)%Q.
Proof.
  intros H0 H1. pose proof (fmap_between s t N x0 H0). pose proof (fmap_between s t N x1 H1).
  unfold mlo at 2. unfold mhi at 1.
  destruct (qmin_spec (fmap s t x0) (fmap s t x1)) as [[? ->] | [? ->]];
    destruct (qmax_spec (fmap s t x0) (fmap s t x1)) as [[? ->] | [? ->]]; lra.
Qed.

(** rasters without common interior: the graph has no edges *)
Lemma linear_graph_nonoverlap dst src NYd NXd NYs NXs A g :
  tiling_ok dst NYd NXd -> grid_intersect_linear dst src NYs NXs A = Ok g ->
  ((mhi (a_sx A) (a_tx A) 0 NXd <= 0)%Q \/ (inject_Z NXs <= mlo (a_sx A) (a_tx A) 0 NXd)%Q \/
   (mhi (a_sy A) (a_ty A) 0 NYd <= 0)%Q \/ (inject_Z NYs <= mlo (a_sy A) (a_ty A) 0 NYd)%Q) ->
  forall d l, In (d, l) g -> l = [].
Proof.
  intros Hd Eg Out [dy dx] l Hin.
  destruct (res_map_graph _ _ _ Eg) as (_ & I1 & _).
  destruct (I1 _ _ Hin) as [Hall El]. apply all_tiles_In in Hall. destruct Hall as [Hdy Hdx].
  pose proof Hd as (Hy & Hx & By & Bx).
  assert (Rx : 0 <= ax_off (t_x dst) dx <= NXd /\ 0 <= ax_off (t_x dst) (dx + 1) <= NXd).
  { rewrite <- Bx. split; split; try (apply off_nonneg; [assumption | lia]); apply off_le_base; [assumption | lia | assumption | lia]. }
  assert (Ry : 0 <= ax_off (t_y dst) dy <= NYd /\ 0 <= ax_off (t_y dst) (dy + 1) <= NYd).
  { rewrite <- By. split; split; try (apply off_nonneg; [assumption | lia]); apply off_le_base; [assumption | lia | assumption | lia]. }
  destruct (tile_image_inside (a_sx A) (a_tx A) NXd _ _ (proj1 Rx) (proj2 Rx)) as [Ix1 Ix2].
  destruct (tile_image_inside (a_sy A) (a_ty A) NYd _ _ (proj1 Ry) (proj2 Ry)) as [Iy1 Iy2].
  rewrite (linear_tile_outside dst src NYd NXd NYs NXs A dy dx Hd Hdy Hdx) in El.
  - inversion El. reflexivity.
  - destruct Out as [O | [O | [O | O]]]; [left | right; left | right; right; left | right; right; right]; lra.
Qed.

(** ** tolerance: the affine used ([A], snapped) vs. the true map ([A0]) *)
Lemma qmax_close a b a' b' d : (Qabs (a - a') <= d)%Q -> (Qabs (b - b') <= d)%Q ->
  (qmax a' b' - d <= qmax a b)%Q /\ (qmin a b <= qmin a' b' + d)%Q.
Proof.
  intros Ha Hb. apply Qabs_Qle_condition in Ha. apply Qabs_Qle_condition in Hb.
  destruct (qmax_spec a b) as [[? ->] | [? ->]]; destruct (qmax_spec a' b') as [[? ->] | [? ->]];
    destruct (qmin_spec a b) as [[? ->] | [? ->]]; destruct (qmin_spec a' b') as [[? ->] | [? ->]];
    split; lra.
Qed.

Lemma linear_graph_complete_tol dst src NYd NXd NYs NXs A A0 delta g dy dx sy sx :
  tiling_ok dst NYd NXd -> tiling_ok src NYs NXs ->
  grid_intersect_linear dst src NYs NXs A = Ok g ->
  0 <= dy < ax_count (t_y dst) -> 0 <= dx < ax_count (t_x dst) ->
  0 <= sy < ax_count (t_y src) -> 0 <= sx < ax_count (t_x src) ->
  ax_off (t_y src) sy < ax_off (t_y src) (sy + 1) ->
  ax_off (t_x src) sx < ax_off (t_x src) (sx + 1) ->
  (forall x, x = ax_off (t_x dst) dx \/ x = ax_off (t_x dst) (dx + 1) ->
             Qabs (fmap (a_sx A) (a_tx A) x - fmap (a_sx A0) (a_tx A0) x) <= delta)%Q ->
  (forall y, y = ax_off (t_y dst) dy \/ y = ax_off (t_y dst) (dy + 1) ->
             Qabs (fmap (a_sy A) (a_ty A) y - fmap (a_sy A0) (a_ty A0) y) <= delta)%Q ->
  (inject_Z (ax_off (t_x src) sx) + delta < mhi (a_sx A0) (a_tx A0) (ax_off (t_x dst) dx) (ax_off (t_x dst) (dx + 1)))%Q ->
  (mlo (a_sx A0) (a_tx A0) (ax_off (t_x dst) dx) (ax_off (t_x dst) (dx + 1)) + delta < inject_Z (ax_off (t_x src) (sx + 1)))%Q ->
  (inject_Z (ax_off (t_y src) sy) + delta < mhi (a_sy A0) (a_ty A0) (ax_off (t_y dst) dy) (ax_off (t_y dst) (dy + 1)))%Q ->
  (mlo (a_sy A0) (a_ty A0) (ax_off (t_y dst) dy) (ax_off (t_y dst) (dy + 1)) + delta < inject_Z (ax_off (t_y src) (sy + 1)))%Q ->
  edge g (dy, dx) (sy, sx).
Proof.
  intros Hd Hs Eg Hdy Hdx Hsy Hsx Oy Ox Cx Cy X1 X2 Y1 Y2.
  destruct (qmax_close _ _ _ _ delta (Cx _ (or_introl eq_refl)) (Cx _ (or_intror eq_refl))) as [Mx1 Mx2].
  destruct (qmax_close _ _ _ _ delta (Cy _ (or_introl eq_refl)) (Cy _ (or_intror eq_refl))) as [My1 My2].
  unfold mlo, mhi in *.
  assert (D0 : (0 <= delta)%Q).
  { eapply Qle_trans; [apply Qabs_nonneg | apply (Cx _ (or_introl eq_refl))]. }
  apply (linear_graph_complete dst src NYd NXd NYs NXs A g dy dx sy sx Hd Hs Eg); try assumption;
    unfold mlo, mhi; lra.
Qed.

(** * general path *)
Section General.
  Context {P : Type}.
  Variables (dst_bbox : P -> res q4) (dst_disjoint : P -> Z * Z -> bool).
  Variables (src_bbox : Z * Z -> res q4) (src_disjoint : Z * Z -> Z * Z -> bool).
  Variables (dst src : tiling) (NYd NXd NYs NXs : Z).

  Let GI fp := grid_intersect_general fp dst_bbox dst_disjoint src_bbox src_disjoint dst src NYd NXd NYs NXs.

  Lemma general_none : GI None = Ok [].
  Proof. reflexivity. Qed.

  Lemma general_spec fp g : GI (Some fp) = Ok g ->
    exists chunks, tiles_query dst_bbox dst_disjoint dst NYd NXd fp = Ok chunks /\
      map fst g = chunks /\
      forall d s, edge g d s <->
                  (In d chunks /\ exists l, tiles_query src_bbox src_disjoint src NYs NXs d = Ok l /\ In s l).
  Proof.
    unfold GI, grid_intersect_general. intros H.
    apply bind_ok in H. destruct H as (chunks & Ec & H).
    destruct (res_map_graph _ _ _ H) as (M & I1 & I2).
    exists chunks. split; [exact Ec|]. split; [exact M|].
    intros d s. split.
    - intros (l & Hin & Hs). destruct (I1 _ _ Hin) as [Hd El]. split; [exact Hd|]. exists l. auto.
    - intros (Hd & l & El & Hs). destruct (I2 d Hd) as (l' & Hin & El'). rewrite El in El'.
      inversion El'; subst l'. exists l. auto.
  Qed.

  (** with the geometry-query characterisation: an edge is exactly a pair of
      range candidates that both oracles report non-disjoint *)
  Lemma general_edges fp g : GI (Some fp) = Ok g ->
    exists bd candd, dst_bbox fp = Ok bd /\ tiles_from_pix_bbox dst NYd NXd bd = Ok candd /\
      forall d s, edge g d s <->
        (In d candd /\ dst_disjoint fp d = false /\
         exists bs cands, src_bbox d = Ok bs /\ tiles_from_pix_bbox src NYs NXs bs = Ok cands /\
                          In s cands /\ src_disjoint d s = false).
  Proof.
    intros H. destruct (general_spec fp g H) as (chunks & Ec & _ & He).
    destruct (tiles_query_spec _ _ _ _ _ _ _ Ec) as (bd & candd & Eb & Ecand & Hc).
    exists bd, candd. split; [exact Eb|]. split; [exact Ecand|].
    intros d s. rewrite He, Hc. split.
    - intros [[H1 H2] (l & El & Hs)].
      destruct (tiles_query_spec _ _ _ _ _ _ _ El) as (bs & cands & Ebs & Ecs & Hl).
      apply Hl in Hs. destruct Hs. split; [exact H1|]. split; [exact H2|]. exists bs, cands. auto.
    - intros (H1 & H2 & bs & cands & Ebs & Ecs & Hs1 & Hs2). split; [auto|].
      unfold tiles_query. rewrite Ebs. cbn [bind]. rewrite Ecs. cbn [bind].
      eexists. split; [reflexivity|]. apply filter_In. rewrite Hs2. auto.
  Qed.

  Lemma general_ok fp :
    tiling_ok dst NYd NXd -> tiling_ok src NYs NXs ->
    (exists b, dst_bbox fp = Ok b) -> (forall d, exists b, src_bbox d = Ok b) ->
    exists g, GI (Some fp) = Ok g.
  Proof.
    intros Hd Hs [b Eb] Hsb. unfold GI, grid_intersect_general.
    destruct (tiles_query_ok dst_bbox dst_disjoint dst NYd NXd fp b Hd Eb) as [chunks Ec].
    rewrite Ec. cbn [bind]. apply res_map_ok. intros d _.
    destruct (Hsb d) as [bs Ebs].
    destruct (tiles_query_ok src_bbox src_disjoint src NYs NXs d bs Hs Ebs) as [l El].
    rewrite El. cbn [bind]. eauto.
  Qed.

  (** if the oracle reports every pair of tiles disjoint, there are no edges *)
  Lemma general_no_edges fp g : GI (Some fp) = Ok g ->
    (forall d s, src_disjoint d s = true) -> forall d s, ~ edge g d s.
  Proof.
    intros H Hd d s He. destruct (general_edges fp g H) as (bd & candd & _ & _ & Hc).
    apply Hc in He. destruct He as (_ & _ & bs & cands & _ & _ & _ & C). rewrite Hd in C. discriminate.
  Qed.

  (** if the footprint is reported disjoint from every destination tile, the graph is empty *)
  Lemma general_empty fp g : GI (Some fp) = Ok g ->
    (forall d, dst_disjoint fp d = true) -> g = [].
  Proof.
    intros H Hd. destruct (general_spec fp g H) as (chunks & Ec & M & _).
    destruct (tiles_query_spec _ _ _ _ _ _ _ Ec) as (bd & candd & _ & _ & Hc).
    destruct chunks as [|c r].
    - destruct g; [reflexivity | discriminate].
    - exfalso. destruct (proj1 (Hc c) (or_introl eq_refl)) as [_ C]. rewrite Hd in C. discriminate.
  Qed.
End General.

(** * statement forms used by Props/C12.v *)
Lemma P_locate a p : ax_ok a ->
  (0 <= p < ax_base a ->
   exists k lo hi, ax_locate a p = Ok k /\ 0 <= k < ax_count a /\ ax_range a k = Ok (lo, hi) /\ lo <= p < hi /\
     forall k' lo' hi', 0 <= k' < ax_count a -> ax_range a k' = Ok (lo', hi') -> lo' <= p < hi' -> k' = k) /\
  (~ 0 <= p < ax_base a -> ax_locate a p = Err EIndex).
Proof.
  intros H. split.
  - intros Hp. destruct (locate_off a p H Hp) as (k & Ek & Hk & Pk).
    exists k, (ax_off a k), (ax_off a (k + 1)). split; [exact Ek|]. split; [exact Hk|].
    split; [apply range_off; assumption|]. split; [exact Pk|].
    intros k' lo' hi' Hk' Er Hin. rewrite (range_off a k' H Hk') in Er. inversion Er; subst lo' hi'.
    pose proof (locate_ge a p k k' H Hk ltac:(lia) Pk ltac:(lia)).
    pose proof (locate_le a p k k' H Hk Hk' Pk ltac:(lia)). lia.
  - intros Hp. unfold ax_locate.
    assert (E : (p <? 0) || (p >=? ax_base a) = true).
    { apply orb_true_iff. destruct (Z_lt_ge_dec p 0) as [L|G]; [left; apply Z.ltb_lt; exact L|].
      right. rewrite Z.geb_leb. apply Z.leb_le. lia. }
    rewrite E. reflexivity.
Qed.

Lemma P_locate_2d t NY NX y x : tiling_ok t NY NX ->
  (0 <= y < NY /\ 0 <= x < NX ->
   exists iy ix, locate t y x = Ok (iy, ix) /\ ax_locate (t_y t) y = Ok iy /\ ax_locate (t_x t) x = Ok ix) /\
  (~ (0 <= y < NY /\ 0 <= x < NX) -> locate t y x = Err EIndex).
Proof.
  intros (Hy & Hx & By & Bx). split.
  - intros [Py Px]. rewrite <- By in Py. rewrite <- Bx in Px.
    destruct (locate_off _ y Hy Py) as (iy & Ey & _). destruct (locate_off _ x Hx Px) as (ix & Ex & _).
    exists iy, ix. split; [apply locate_2d; assumption | auto].
  - intros Hn. unfold locate. rewrite By, Bx.
    assert (E : (y <? 0) || (y >=? NY) || (x <? 0) || (x >=? NX) = true).
    { destruct (Z_lt_ge_dec y 0) as [L|G]; [apply Z.ltb_lt in L; rewrite L; reflexivity|].
      destruct (Z_lt_ge_dec y NY) as [L2|G2].
      2:{ assert (T : (y >=? NY) = true) by (rewrite Z.geb_leb; apply Z.leb_le; lia). rewrite T, orb_true_r. reflexivity. }
      destruct (Z_lt_ge_dec x 0) as [L3|G3]; [apply Z.ltb_lt in L3; rewrite L3, orb_true_r; reflexivity|].
      assert (T : (x >=? NX) = true) by (rewrite Z.geb_leb; apply Z.leb_le; lia). rewrite T, orb_true_r. reflexivity. }
    rewrite E. reflexivity.
Qed.

Lemma P_pix_query t NY NX bx1 by1 bx2 by2 : tiling_ok t NY NX ->
  exists l, tiles_from_pix_bbox t NY NX (bx1, by1, bx2, by2) = Ok l /\
    (forall iy ix, In (iy, ix) l -> 0 <= iy < ax_count (t_y t) /\ 0 <= ix < ax_count (t_x t)) /\
    (forall iy ix ylo yhi xlo xhi,
        0 <= iy < ax_count (t_y t) -> 0 <= ix < ax_count (t_x t) ->
        ax_range (t_y t) iy = Ok (ylo, yhi) -> ax_range (t_x t) ix = Ok (xlo, xhi) ->
        ylo < yhi -> xlo < xhi ->
        (inject_Z xlo < bx2)%Q -> (bx1 < inject_Z xhi)%Q ->
        (inject_Z ylo < by2)%Q -> (by1 < inject_Z yhi)%Q ->
        In (iy, ix) l).
Proof.
  intros Ht. destruct (pix_query_complete t NY NX bx1 by1 bx2 by2 Ht) as (l & E & A & B & _). eauto.
Qed.

(** the same with a witness point: some point lies strictly inside the box and strictly inside the tile *)
Lemma P_pix_query_point t NY NX bx1 by1 bx2 by2 l iy ix ylo yhi xlo xhi (u v : Q) : tiling_ok t NY NX ->
  tiles_from_pix_bbox t NY NX (bx1, by1, bx2, by2) = Ok l ->
  0 <= iy < ax_count (t_y t) -> 0 <= ix < ax_count (t_x t) ->
  ax_range (t_y t) iy = Ok (ylo, yhi) -> ax_range (t_x t) ix = Ok (xlo, xhi) ->
  (bx1 < u < bx2)%Q -> (by1 < v < by2)%Q ->
  (inject_Z xlo < u < inject_Z xhi)%Q -> (inject_Z ylo < v < inject_Z yhi)%Q ->
  In (iy, ix) l.
Proof.
  intros Ht El Hiy Hix Ry Rx U V TU TV.
  destruct (pix_query_complete t NY NX bx1 by1 bx2 by2 Ht) as (l' & E & _ & B & _).
  rewrite El in E. inversion E; subst l'.
  apply (B iy ix ylo yhi xlo xhi); try assumption; try (rewrite Zlt_Qlt); lra.
Qed.

Lemma P_linear_complete dst src NYd NXd NYs NXs A g dy dx sy sx dylo dyhi dxlo dxhi sylo syhi sxlo sxhi :
  tiling_ok dst NYd NXd -> tiling_ok src NYs NXs ->
  grid_intersect_linear dst src NYs NXs A = Ok g ->
  0 <= dy < ax_count (t_y dst) -> 0 <= dx < ax_count (t_x dst) ->
  0 <= sy < ax_count (t_y src) -> 0 <= sx < ax_count (t_x src) ->
  ax_range (t_y dst) dy = Ok (dylo, dyhi) -> ax_range (t_x dst) dx = Ok (dxlo, dxhi) ->
  ax_range (t_y src) sy = Ok (sylo, syhi) -> ax_range (t_x src) sx = Ok (sxlo, sxhi) ->
  sylo < syhi -> sxlo < sxhi ->
  (inject_Z sxlo < mhi (a_sx A) (a_tx A) dxlo dxhi)%Q -> (mlo (a_sx A) (a_tx A) dxlo dxhi < inject_Z sxhi)%Q ->
  (inject_Z sylo < mhi (a_sy A) (a_ty A) dylo dyhi)%Q -> (mlo (a_sy A) (a_ty A) dylo dyhi < inject_Z syhi)%Q ->
  edge g (dy, dx) (sy, sx).
Proof.
  intros Hd Hs Eg Hdy Hdx Hsy Hsx R1 R2 R3 R4 N1 N2 X1 X2 Y1 Y2.
  pose proof Hd as (Hdy' & Hdx' & _). pose proof Hs as (Hsy' & Hsx' & _).
  rewrite (range_off _ _ Hdy' Hdy) in R1. rewrite (range_off _ _ Hdx' Hdx) in R2.
  rewrite (range_off _ _ Hsy' Hsy) in R3. rewrite (range_off _ _ Hsx' Hsx) in R4.
  inversion R1; inversion R2; inversion R3; inversion R4; subst.
  apply (linear_graph_complete dst src NYd NXd NYs NXs A g dy dx sy sx); assumption.
Qed.

(** point form: a point strictly inside the destination tile is mapped strictly inside the source tile *)
Lemma P_linear_complete_point dst src NYd NXd NYs NXs A g dy dx sy sx dylo dyhi dxlo dxhi sylo syhi sxlo sxhi (u v : Q) :
  tiling_ok dst NYd NXd -> tiling_ok src NYs NXs ->
  grid_intersect_linear dst src NYs NXs A = Ok g ->
  0 <= dy < ax_count (t_y dst) -> 0 <= dx < ax_count (t_x dst) ->
  0 <= sy < ax_count (t_y src) -> 0 <= sx < ax_count (t_x src) ->
  ax_range (t_y dst) dy = Ok (dylo, dyhi) -> ax_range (t_x dst) dx = Ok (dxlo, dxhi) ->
  ax_range (t_y src) sy = Ok (sylo, syhi) -> ax_range (t_x src) sx = Ok (sxlo, sxhi) ->
  (inject_Z dxlo <= u <= inject_Z dxhi)%Q -> (inject_Z dylo <= v <= inject_Z dyhi)%Q ->
  (inject_Z sxlo < a_sx A * u + a_tx A < inject_Z sxhi)%Q ->
  (inject_Z sylo < a_sy A * v + a_ty A < inject_Z syhi)%Q ->
  edge g (dy, dx) (sy, sx).
Proof.
  intros Hd Hs Eg Hdy Hdx Hsy Hsx R1 R2 R3 R4 U V MU MV.
  assert (Bt : forall s t (lo hi : Z) (w : Q), (inject_Z lo <= w <= inject_Z hi)%Q ->
               (mlo s t lo hi <= s * w + t <= mhi s t lo hi)%Q).
  { intros s t lo hi w Hw. unfold mlo, mhi, fmap.
    destruct (Qlt_le_dec s 0) as [Neg | Pos].
    - assert (s * inject_Z hi <= s * w)%Q by nra. assert (s * w <= s * inject_Z lo)%Q by nra.
      destruct (qmin_spec (s * inject_Z lo + t) (s * inject_Z hi + t)) as [[? ->] | [? ->]];
        destruct (qmax_spec (s * inject_Z lo + t) (s * inject_Z hi + t)) as [[? ->] | [? ->]]; lra.
    - assert (s * w <= s * inject_Z hi)%Q by nra. assert (s * inject_Z lo <= s * w)%Q by nra.
      destruct (qmin_spec (s * inject_Z lo + t) (s * inject_Z hi + t)) as [[? ->] | [? ->]];
        destruct (qmax_spec (s * inject_Z lo + t) (s * inject_Z hi + t)) as [[? ->] | [? ->]]; lra. }
  pose proof (Bt (a_sx A) (a_tx A) dxlo dxhi u U). pose proof (Bt (a_sy A) (a_ty A) dylo dyhi v V).
  apply (P_linear_complete dst src NYd NXd NYs NXs A g dy dx sy sx dylo dyhi dxlo dxhi sylo syhi sxlo sxhi);
    try assumption; try (rewrite Zlt_Qlt); lra.
Qed.

Lemma P_linear_sound dst src NYd NXd NYs NXs A g dy dx sy sx l dylo dyhi dxlo dxhi :
  tiling_ok dst NYd NXd -> tiling_ok src NYs NXs ->
  grid_intersect_linear dst src NYs NXs A = Ok g -> In ((dy, dx), l) g -> In (sy, sx) l ->
  ax_range (t_y dst) dy = Ok (dylo, dyhi) -> ax_range (t_x dst) dx = Ok (dxlo, dxhi) ->
  0 <= dy < ax_count (t_y dst) /\ 0 <= dx < ax_count (t_x dst) /\
  0 <= sy < ax_count (t_y src) /\ 0 <= sx < ax_count (t_x src) /\
  exists sylo syhi sxlo sxhi,
    ax_range (t_y src) sy = Ok (sylo, syhi) /\ ax_range (t_x src) sx = Ok (sxlo, sxhi) /\
    (inject_Z sxlo < mhi (a_sx A) (a_tx A) dxlo dxhi + 1)%Q /\ (mlo (a_sx A) (a_tx A) dxlo dxhi - 1 < inject_Z sxhi)%Q /\
    (inject_Z sylo < mhi (a_sy A) (a_ty A) dylo dyhi + 1)%Q /\ (mlo (a_sy A) (a_ty A) dylo dyhi - 1 < inject_Z syhi)%Q.
Proof.
  intros Hd Hs Eg Hin Hl R1 R2.
  destruct (res_map_graph _ _ _ Eg) as (_ & I1 & _).
  destruct (I1 _ _ Hin) as [Hall El]. apply all_tiles_In in Hall. destruct Hall as [Hdy Hdx].
  destruct (linear_tile_complete dst src NYd NXd NYs NXs A dy dx Hd Hs Hdy Hdx) as (l' & El' & V & _ & S).
  rewrite El in El'. inversion El'; subst l'.
  destruct (V _ _ Hl) as [Hsy Hsx]. destruct (S _ _ Hl) as (S1 & S2 & S3 & S4).
  pose proof Hd as (Hdy' & Hdx' & _). pose proof Hs as (Hsy' & Hsx' & _).
  rewrite (range_off _ _ Hdy' Hdy) in R1. rewrite (range_off _ _ Hdx' Hdx) in R2.
  inversion R1; inversion R2; subst.
  repeat split; try lia.
  exists (ax_off (t_y src) sy), (ax_off (t_y src) (sy + 1)), (ax_off (t_x src) sx), (ax_off (t_x src) (sx + 1)).
  split; [apply range_off; assumption|]. split; [apply range_off; assumption|]. auto.
Qed.

Lemma P_linear_tol dst src NYd NXd NYs NXs A A0 delta g dy dx sy sx dylo dyhi dxlo dxhi sylo syhi sxlo sxhi :
  tiling_ok dst NYd NXd -> tiling_ok src NYs NXs ->
  grid_intersect_linear dst src NYs NXs A = Ok g ->
  0 <= dy < ax_count (t_y dst) -> 0 <= dx < ax_count (t_x dst) ->
  0 <= sy < ax_count (t_y src) -> 0 <= sx < ax_count (t_x src) ->
  ax_range (t_y dst) dy = Ok (dylo, dyhi) -> ax_range (t_x dst) dx = Ok (dxlo, dxhi) ->
  ax_range (t_y src) sy = Ok (sylo, syhi) -> ax_range (t_x src) sx = Ok (sxlo, sxhi) ->
  sylo < syhi -> sxlo < sxhi ->
  (forall x, x = dxlo \/ x = dxhi -> Qabs (fmap (a_sx A) (a_tx A) x - fmap (a_sx A0) (a_tx A0) x) <= delta)%Q ->
  (forall y, y = dylo \/ y = dyhi -> Qabs (fmap (a_sy A) (a_ty A) y - fmap (a_sy A0) (a_ty A0) y) <= delta)%Q ->
  (inject_Z sxlo + delta < mhi (a_sx A0) (a_tx A0) dxlo dxhi)%Q -> (mlo (a_sx A0) (a_tx A0) dxlo dxhi + delta < inject_Z sxhi)%Q ->
  (inject_Z sylo + delta < mhi (a_sy A0) (a_ty A0) dylo dyhi)%Q -> (mlo (a_sy A0) (a_ty A0) dylo dyhi + delta < inject_Z syhi)%Q ->
  edge g (dy, dx) (sy, sx).
Proof.
  intros Hd Hs Eg Hdy Hdx Hsy Hsx R1 R2 R3 R4 N1 N2 Cx Cy X1 X2 Y1 Y2.
  pose proof Hd as (Hdy' & Hdx' & _). pose proof Hs as (Hsy' & Hsx' & _).
  rewrite (range_off _ _ Hdy' Hdy) in R1. rewrite (range_off _ _ Hdx' Hdx) in R2.
  rewrite (range_off _ _ Hsy' Hsy) in R3. rewrite (range_off _ _ Hsx' Hsx) in R4.
  inversion R1; inversion R2; inversion R3; inversion R4; subst.
  apply (linear_graph_complete_tol dst src NYd NXd NYs NXs A A0 delta g dy dx sy sx); assumption.
Qed.

(** F11: the loop body before the repair reports the nearest edge tiles for rasters that do not overlap *)
Lemma F11_prefix_refuted :
  exists dst src NYd NXd NYs NXs A g,
    tiling_ok dst NYd NXd /\ tiling_ok src NYs NXs /\
    (mhi (a_sx A) (a_tx A) 0 NXd <= 0)%Q /\
    grid_intersect_linear_prefix dst src NYs NXs A = Ok g /\
    edge g (0, 0) (0, 0).
Proof.
  exists (mkTiling (AReg 8 4) (AReg 8 4)), (mkTiling (AReg 8 4) (AReg 8 4)), 8, 8, 8, 8,
         (mkST 1 (-100 # 1) 1 0).
  eexists. split; [|split; [|split; [|split]]].
  - repeat split; simpl; lia.
  - repeat split; simpl; lia.
  - vm_compute. discriminate.
  - vm_compute. reflexivity.
  - eexists. split; [left; reflexivity | left; reflexivity].
Qed.
