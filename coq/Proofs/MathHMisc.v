(** align_*_pow2, Bin1D, data_resolution_and_offset / affine_from_axis. *)
From Coq Require Import ZArith QArith Qround Qabs List Bool Lia Lqa.
From OG Require Import Base.Result Base.QZ Model.Roi Model.MathH Proofs.MathHBasics.
Import ListNotations.
Open Scope Q_scope.

(** * powers of two *)
Section Pow2.
Open Scope Z_scope.

Lemma shiftl_1 k : 0 <= k -> Z.shiftl 1 k = 2 ^ k.
Proof. intros H. rewrite Z.shiftl_mul_pow2 by exact H. lia. Qed.

Lemma bit_length_spec n : 0 < n -> 0 < bit_length n /\ 2 ^ (bit_length n - 1) <= n < 2 ^ bit_length n.
Proof.
  intros H. unfold bit_length. destruct (n =? 0) eqn:E; [apply Z.eqb_eq in E; lia|].
  rewrite Z.abs_eq by lia. pose proof (Z.log2_spec n H) as S. pose proof (Z.log2_nonneg n).
  replace (Z.log2 n + 1 - 1) with (Z.log2 n) by lia.
  replace (Z.log2 n + 1) with (Z.succ (Z.log2 n)) by lia. lia.
Qed.

Lemma align_up_pow2_spec x : 1 <= x ->
  exists k, 0 <= k /\ align_up_pow2 x = 2 ^ k /\ x <= 2 ^ k /\
            (0 < k -> 2 ^ (k - 1) < x) /\
            (forall j, 0 <= j -> x <= 2 ^ j -> 2 ^ k <= 2 ^ j).
Proof.
  intros H. unfold align_up_pow2. destruct (x <=? 0) eqn:E; [apply Z.leb_le in E; lia|].
  destruct (Z.eq_dec x 1) as [->|N].
  - exists 0. simpl. repeat split; try lia; intros j Hj _; pose proof (Z.pow_pos_nonneg 2 j); lia.
  - assert (P : 0 < x - 1) by lia.
    destruct (bit_length_spec (x - 1) P) as (B0 & B1 & B2).
    exists (bit_length (x - 1)). rewrite shiftl_1 by lia.
    repeat split; try lia.
    intros j Hj Hx. apply Z.pow_le_mono_r; [lia|].
    destruct (Z_lt_le_dec j (bit_length (x - 1))) as [L|L]; [|exact L]. exfalso.
    assert (2 ^ j <= 2 ^ (bit_length (x - 1) - 1)) by (apply Z.pow_le_mono_r; lia). lia.
Qed.

Lemma align_up_pow2_nonpos x : x <= 0 -> align_up_pow2 x = 1.
Proof. intros H. unfold align_up_pow2. apply Z.leb_le in H. rewrite H. reflexivity. Qed.

Lemma align_down_pow2_spec x : 1 <= x ->
  exists k, 0 <= k /\ align_down_pow2 x = 2 ^ k /\ 2 ^ k <= x /\ x < 2 ^ (k + 1) /\
            (forall j, 0 <= j -> 2 ^ j <= x -> 2 ^ j <= 2 ^ k).
Proof.
  intros H. unfold align_down_pow2.
  destruct (align_up_pow2_spec x H) as (k & K0 & -> & Ux & Lx & Umin).
  assert (Max : forall k', 0 <= k' -> 2 ^ k' <= x -> x < 2 ^ (k' + 1) ->
                forall j, 0 <= j -> 2 ^ j <= x -> 2 ^ j <= 2 ^ k').
  { intros k' K' A B j Hj Hx. apply Z.pow_le_mono_r; [lia|].
    destruct (Z_lt_le_dec k' j) as [L|L]; [|exact L]. exfalso.
    assert (2 ^ (k' + 1) <= 2 ^ j) by (apply Z.pow_le_mono_r; lia). lia. }
  destruct (2 ^ k >? x) eqn:E.
  - apply Z.gtb_lt in E.
    assert (K1 : 0 < k).
    { destruct (Z.eq_dec k 0) as [->|]; [change (2 ^ 0) with 1 in E; lia | lia]. }
    specialize (Lx K1).
    assert (P : 2 ^ k = 2 * 2 ^ (k - 1)).
    { replace k with (Z.succ (k - 1)) at 1 by lia. apply Z.pow_succ_r. lia. }
    exists (k - 1). replace (k - 1 + 1) with k by lia.
    rewrite P at 1. replace (2 * 2 ^ (k - 1) / 2) with (2 ^ (k - 1))
      by (symmetry; rewrite Z.mul_comm; apply Z.div_mul; lia).
    repeat split; try lia. apply Max; [lia | lia | replace (k - 1 + 1) with k by lia; lia].
  - assert (E' : 2 ^ k <= x) by (destruct (Z.gtb_spec (2 ^ k) x); [discriminate | lia]).
    assert (Ex : 2 ^ k = x) by lia.
    assert (P : 2 ^ (k + 1) = 2 * 2 ^ k).
    { replace (k + 1) with (Z.succ k) by lia. apply Z.pow_succ_r. lia. }
    pose proof (Z.pow_pos_nonneg 2 k).
    exists k. repeat split; try lia; apply Max; lia.
Qed.

End Pow2.

(** * Bin1D *)
Definition bin_ok (b : bin1d) : Prop := 0 < bsz b /\ (bdir b = 1%Z \/ bdir b = (-1)%Z).

Lemma bin1d_new_ok sz origin dir : 0 < sz -> (dir = 1%Z \/ dir = (-1)%Z) ->
  bin1d_new sz origin dir = Ok (mkBin sz origin dir).
Proof.
  intros Hs Hd. unfold bin1d_new.
  assert (E1 : negb ((dir =? -1)%Z || (dir =? 1)%Z) = false) by (destruct Hd as [-> | ->]; reflexivity).
  rewrite E1. assert (E2 : Qltb 0 sz = true) by (apply Qltb_true; exact Hs). rewrite E2. reflexivity.
Qed.

Lemma bin1d_new_inv sz origin dir b : bin1d_new sz origin dir = Ok b ->
  b = mkBin sz origin dir /\ bin_ok b.
Proof.
  unfold bin1d_new. destruct (negb ((dir =? -1)%Z || (dir =? 1)%Z)) eqn:E1; [discriminate|].
  destruct (Qltb 0 sz) eqn:E2; [|discriminate]. simpl. intros H. injection H as <-.
  split; [reflexivity|]. split; simpl.
  - apply Qltb_true. exact E2.
  - apply negb_false_iff, orb_true_iff in E1. destruct E1 as [E|E]; apply Z.eqb_eq in E; auto.
Qed.

Lemma Qfloor_eq_iff u (i : Z) : Qfloor u = i <-> inject_Z i <= u /\ u < inject_Z i + 1.
Proof.
  split.
  - intros <-. destruct (Qfloor_spec u) as (f & Ef & H1 & H2). rewrite <- Ef. auto.
  - intros [H1 H2]. apply Qfloor_ge_iff in H1.
    assert (H3 : u < inject_Z (i + 1)) by (rewrite inject_Z_plus, inj1; exact H2).
    apply Qfloor_lt_iff in H3. lia.
Qed.

Lemma div_between x o sz (i : Q) : 0 < sz ->
  (i <= (x - o) / sz /\ (x - o) / sz < i + 1) <-> (i * sz + o <= x /\ x < i * sz + o + sz).
Proof.
  intros Hs. assert (U : x - o == ((x - o) / sz) * sz) by (field; lra).
  set (u := (x - o) / sz) in *. split; intros [H1 H2].
  - assert (P1 : 0 <= (u - i) * sz) by (apply Qmult_le_0_compat; lra).
    assert (P2 : 0 < (i + 1 - u) * sz) by (apply Qmult_lt_0_compat; lra).
    split; lra.
  - split.
    + apply Qnot_lt_le. intros C.
      assert (P : 0 < (i - u) * sz) by (apply Qmult_lt_0_compat; lra). lra.
    + apply Qnot_le_lt. intros C.
      assert (P : 0 <= (u - (i + 1)) * sz) by (apply Qmult_le_0_compat; lra). lra.
Qed.

(** [bin x = i] exactly when [x] lies in the half-open interval [b[i]] *)
Lemma bin1d_bin_iff b x i : bin_ok b ->
  bin1d_bin b x = i <-> fst (bin1d_getitem b i) <= x /\ x < snd (bin1d_getitem b i).
Proof.
  intros [Hs Hd]. unfold bin1d_bin, bin1d_getitem. cbn [fst snd].
  destruct Hd as [-> | ->].
  - rewrite Z.mul_1_l. rewrite Qfloor_eq_iff. rewrite (div_between x (borigin b) (bsz b) (inject_Z i) Hs).
    change (inject_Z 1) with 1.
    split; intros [H1 H2]; split; lra.
  - assert (E : (-1 * Qfloor ((x - borigin b) / bsz b))%Z = i <-> Qfloor ((x - borigin b) / bsz b) = (- i)%Z) by lia.
    rewrite E. rewrite Qfloor_eq_iff. rewrite (div_between x (borigin b) (bsz b) (inject_Z (- i)) Hs).
    rewrite inject_Z_opp. change (inject_Z (-1)) with (-(1)).
    split; intros [H1 H2]; split; lra.
Qed.

Lemma bin1d_adjacent b i : bin_ok b ->
  snd (bin1d_getitem b i) == fst (bin1d_getitem b (i + bdir b)).
Proof.
  intros [Hs Hd]. unfold bin1d_getitem. cbn [fst snd]. rewrite inject_Z_plus.
  destruct Hd as [-> | ->].
  - change (inject_Z 1) with 1. ring.
  - change (inject_Z (-1)) with (-(1)). ring.
Qed.

Lemma bin1d_width b i : snd (bin1d_getitem b i) - fst (bin1d_getitem b i) == bsz b.
Proof. unfold bin1d_getitem. cbn [fst snd]. ring. Qed.

Lemma dir_sq d : (d = 1%Z \/ d = (-1)%Z) -> inject_Z d * inject_Z d == 1.
Proof. intros [-> | ->]; reflexivity. Qed.

Lemma bin1d_from_sample_bin_spec idx x0 x1 dir : x0 < x1 -> (dir = 1%Z \/ dir = (-1)%Z) ->
  exists b, bin1d_from_sample_bin idx (x0, x1) dir = Ok b /\ bin_ok b /\ bdir b = dir /\
            bsz b == x1 - x0 /\
            fst (bin1d_getitem b idx) == x0 /\ snd (bin1d_getitem b idx) == x1 /\
            (forall x, bin1d_bin b x = idx <-> x0 <= x /\ x < x1).
Proof.
  intros Hx Hd. unfold bin1d_from_sample_bin.
  assert (E : Qltb x0 x1 = true) by (apply Qltb_true; exact Hx). rewrite E. simpl negb. cbv iota.
  assert (Hs : 0 < x1 - x0) by lra.
  rewrite (bin1d_new_ok _ _ _ Hs Hd). eexists. split; [reflexivity|].
  assert (Ok' : bin_ok (mkBin (x1 - x0) (x0 - (x1 - x0) * inject_Z idx * inject_Z dir) dir)) by (split; assumption).
  assert (G0 : fst (bin1d_getitem (mkBin (x1 - x0) (x0 - (x1 - x0) * inject_Z idx * inject_Z dir) dir) idx) == x0).
  { unfold bin1d_getitem. cbn [fst snd bsz borigin bdir]. ring. }
  assert (G1 : snd (bin1d_getitem (mkBin (x1 - x0) (x0 - (x1 - x0) * inject_Z idx * inject_Z dir) dir) idx) == x1).
  { unfold bin1d_getitem. cbn [fst snd bsz borigin bdir]. ring. }
  split; [exact Ok'|]. split; [reflexivity|]. split; [reflexivity|].
  split; [exact G0|]. split; [exact G1|].
  intros x. rewrite (bin1d_bin_iff _ x idx Ok'). rewrite G0, G1. tauto.
Qed.

Lemma bin1d_from_sample_bin_roundtrip b i : bin_ok b ->
  exists b', bin1d_from_sample_bin i (bin1d_getitem b i) (bdir b) = Ok b' /\
             bsz b' == bsz b /\ borigin b' == borigin b /\ bdir b' = bdir b.
Proof.
  intros [Hs Hd].
  pose proof (dir_sq _ Hd) as D2.
  unfold bin1d_from_sample_bin, bin1d_getitem.
  set (_x := inject_Z i * bsz b * inject_Z (bdir b) + borigin b).
  assert (E : Qltb _x (_x + bsz b) = true) by (apply Qltb_true; lra). rewrite E. simpl negb. cbv iota.
  assert (Hs' : 0 < _x + bsz b - _x) by lra.
  rewrite (bin1d_new_ok _ _ _ Hs' Hd). eexists. split; [reflexivity|]. cbn [bsz borigin bdir].
  split; [ring|]. split; [|reflexivity].
  unfold _x. ring.
Qed.

Lemma bin1d_from_sample_bin_err idx x0 x1 dir : x1 <= x0 ->
  bin1d_from_sample_bin idx (x0, x1) dir = Err (EAssert 633).
Proof.
  intros H. unfold bin1d_from_sample_bin.
  assert (E : Qltb x0 x1 = false) by (apply Qltb_false; exact H). rewrite E. reflexivity.
Qed.

(** * axis labels *)
Definition regular (data : list Q) (c0 r : Q) : Prop :=
  forall i, (i < length data)%nat -> nth i data 0 == c0 + inject_Z (Z.of_nat i) * r.

Lemma data_res_regular data fb c0 r :
  regular data c0 r ->
  ((2 <= length data)%nat \/ (length data = 1%nat /\ exists f, fb = Some f /\ f == r)) ->
  exists rs off, data_resolution_and_offset data fb = Ok (rs, off) /\ rs == r /\ off == c0 - (1#2) * r.
Proof.
  intros Hreg Hn. unfold data_resolution_and_offset.
  assert (H0 : nth 0 data 0 == c0).
  { rewrite (Hreg 0%nat) by (destruct Hn as [?|[? _]]; lia). simpl. ring. }
  destruct Hn as [Hn | (Hn & f & -> & Ef)].
  - assert (E : (Z.of_nat (length data) <? 2)%Z = false) by (apply Z.ltb_ge; lia).
    rewrite E. simpl. eexists. eexists. split; [reflexivity|].
    assert (Hl : nth (length data - 1) data 0 == c0 + (inject_Z (Z.of_nat (length data)) - 1) * r).
    { rewrite (Hreg (length data - 1)%nat) by lia.
      rewrite Nat2Z.inj_sub by lia. unfold Z.sub. rewrite inject_Z_plus, inject_Z_opp. simpl. ring. }
    assert (Hn' : 2 <= inject_Z (Z.of_nat (length data))).
    { assert (X : (2 <= Z.of_nat (length data))%Z) by lia. rewrite Zle_Qle in X. exact X. }
    assert (R : (nth (length data - 1) data 0 - nth 0 data 0) / (inject_Z (Z.of_nat (length data)) - 1) == r).
    { rewrite Hl, H0. field. lra. }
    split; [exact R|]. rewrite R, H0. reflexivity.
  - rewrite Hn. simpl. eexists. eexists. split; [reflexivity|].
    split; [exact Ef|]. rewrite H0, Ef. reflexivity.
Qed.

Lemma data_res_empty fb : data_resolution_and_offset [] fb = Err EValue.
Proof. reflexivity. Qed.

Lemma data_res_single_nofallback v : data_resolution_and_offset [v] None = Err EValue.
Proof. reflexivity. Qed.

Definition axis_ok (data : list Q) (fb : option Q) (r : Q) : Prop :=
  (2 <= length data)%nat \/ (length data = 1%nat /\ exists f, fb = Some f /\ f == r).

Lemma affine_from_axis_spec xx yy fb cx rx cy ry :
  regular xx cx rx -> regular yy cy ry ->
  axis_ok xx (option_map (fun f => fst (res_xy f)) fb) rx ->
  axis_ok yy (option_map (fun f => snd (res_xy f)) fb) ry ->
  exists A, affine_from_axis xx yy fb = Ok A /\
            aff_eq A (mkAff rx 0 (cx - (1#2) * rx) 0 ry (cy - (1#2) * ry)) /\
            forall i j, (i < length xx)%nat -> (j < length yy)%nat ->
              fst (aff_apply A (inject_Z (Z.of_nat i) + (1#2), inject_Z (Z.of_nat j) + (1#2))) == nth i xx 0 /\
              snd (aff_apply A (inject_Z (Z.of_nat i) + (1#2), inject_Z (Z.of_nat j) + (1#2))) == nth j yy 0.
Proof.
  intros Rx Ry Ax Ay. unfold affine_from_axis.
  assert (Fx : (let '(frx, _) := match fb with
                                  | None => (None, None)
                                  | Some r => (Some (fst (res_xy r)), Some (snd (res_xy r)))
                                  end in frx) = option_map (fun f => fst (res_xy f)) fb) by (destruct fb; reflexivity).
  destruct (data_res_regular xx (option_map (fun f => fst (res_xy f)) fb) cx rx Rx Ax) as (xr & xo & Ex & Exr & Exo).
  destruct (data_res_regular yy (option_map (fun f => snd (res_xy f)) fb) cy ry Ry Ay) as (yr & yo & Ey & Eyr & Eyo).
  destruct fb as [f|]; simpl option_map in *; cbv iota beta; rewrite Ex; simpl; rewrite Ey; simpl.
  - eexists. split; [reflexivity|]. split.
    + unfold aff_eq; simpl. rewrite Exr, Exo, Eyr, Eyo. repeat split; ring.
    + intros i j Hi Hj. simpl. rewrite (Rx i Hi), (Ry j Hj), Exr, Exo, Eyr, Eyo. split; ring.
  - eexists. split; [reflexivity|]. split.
    + unfold aff_eq; simpl. rewrite Exr, Exo, Eyr, Eyo. repeat split; ring.
    + intros i j Hi Hj. simpl. rewrite (Rx i Hi), (Ry j Hj), Exr, Exo, Eyr, Eyo. split; ring.
Qed.
