(** GeoBox.from_bbox / from_geopolygon / zoom_to(resolution=): composition of
    the per-axis snap_grid theorems (property C08). *)
From Coq Require Import ZArith QArith Qround Qabs List Bool Lia Lqa.
From OG Require Import Base.Result Base.QZ Model.Roi Model.MathH Model.FromBbox
  Proofs.MathHBasics Proofs.MathHSnap Proofs.MathHSnapMin Proofs.MathHScale.
Import ListNotations.
Open Scope Q_scope.

(** low / high edge of the 1-d grid [tx, nx] with pixel size [rs] of either sign *)
Definition grid_lo (rs tx : Q) (nx : Z) : Q := if Qltb 0 rs then tx else tx + inject_Z nx * rs.
Definition grid_hi (rs tx : Q) (nx : Z) : Q := if Qltb 0 rs then tx + inject_Z nx * rs else tx.

Definition snap_ok (o : option Q) : Prop :=
  match o with None => True | Some o => 0 <= o /\ o < 1 end.

(** everything C08 says about one axis *)
Definition axis_spec (x0 x1 rs : Q) (o : option Q) (tol tx : Q) (nx : Z) : Prop :=
  (1 <= nx)%Z /\
  grid_hi rs tx nx - grid_lo rs tx nx == inject_Z nx * Qabs rs /\
  (* covers [x0, x1] except at most tol pixel per side *)
  grid_lo rs tx nx <= x0 + tol * Qabs rs /\
  x1 - tol * Qabs rs <= grid_hi rs tx nx /\
  (* is less than one pixel (plus tol) larger than necessary on either side *)
  x0 - grid_lo rs tx nx <= Qabs rs /\
  grid_hi rs tx nx - x1 <= (1 + tol) * Qabs rs /\
  (x0 < x1 -> x0 - grid_lo rs tx nx < Qabs rs /\ grid_hi rs tx nx - x1 < (1 + tol) * Qabs rs) /\
  (Qabs rs <= x1 - x0 -> tol < 1 -> grid_hi rs tx nx - x1 < Qabs rs) /\
  (* pixel edges sit at (integer + anchor) pixels from the origin, or exactly at the region's edge *)
  match o with
  | Some o => exists k : Z, tx == (inject_Z k + o) * Qabs rs
  | None => tx == (if Qltb 0 rs then x0 else x1)
  end.

Lemma snap_grid_axis x0 x1 rs o tol :
  ~ rs == 0 -> x0 <= x1 -> snap_ok o -> 0 <= tol ->
  exists tx nx, snap_grid x0 x1 rs o tol = Ok (tx, nx) /\ axis_spec x0 x1 rs o tol tx nx.
Proof.
  intros Hr Hx Ho Ht. unfold axis_spec, grid_lo, grid_hi.
  destruct (Qlt_le_dec 0 rs) as [P|P].
  - assert (E : Qltb 0 rs = true) by (apply Qltb_true; exact P). rewrite E.
    assert (Ea : Qabs rs == rs) by (apply Qabs_pos; lra).
    destruct o as [o|].
    + destruct Ho as [O0 O1].
      destruct (snap_grid_some_pos x0 x1 rs o tol P Hx (conj O0 O1) Ht)
        as (tx & nx & k & Eq & N1 & A & L1 & L2 & C1 & X1 & X2 & X3).
      exists tx, nx. split; [exact Eq|].
      split; [exact N1|]. split; [rewrite Ea; ring|]. split; [rewrite Ea; lra|]. split; [rewrite Ea; lra|].
      split; [rewrite Ea; lra|]. split; [rewrite Ea; lra|].
      split; [intros S; specialize (X2 S); rewrite Ea; lra|].
      split; [rewrite Ea; intros S T; specialize (X3 S T); lra|].
      exists k. rewrite Ea. exact A.
    + destruct (snap_grid_none_pos x0 x1 rs tol P Hx Ht) as (nx & Eq & N1 & C1 & X1 & X2).
      exists x0, nx. split; [exact Eq|].
      assert (Pt : 0 <= tol * rs) by (apply Qmult_le_0_compat; lra).
      split; [exact N1|]. split; [rewrite Ea; ring|]. split; [rewrite Ea; lra|]. split; [rewrite Ea; lra|].
      split; [rewrite Ea; lra|]. split; [rewrite Ea; lra|].
      split; [intros S; specialize (X2 S); rewrite Ea; lra|].
      split; [rewrite Ea; intros S T; assert (S' : x0 < x1) by lra; specialize (X2 S'); lra|].
      reflexivity.
  - assert (N : rs < 0).
    { apply Qnot_le_lt. intros C. apply Hr. lra. }
    assert (E : Qltb 0 rs = false) by (apply Qltb_false; lra). rewrite E.
    assert (Ea : Qabs rs == - rs) by (apply Qabs_neg; lra).
    destruct o as [o|].
    + destruct Ho as [O0 O1].
      destruct (snap_grid_some_neg x0 x1 rs o tol N Hx (conj O0 O1) Ht)
        as (tx & nx & k & Eq & N1 & A & L1 & L2 & C1 & X1 & X2 & X3).
      exists tx, nx. split; [exact Eq|].
      split; [exact N1|]. split; [rewrite Ea; ring|]. split; [rewrite Ea; lra|]. split; [rewrite Ea; lra|].
      split; [rewrite Ea; lra|]. split; [rewrite Ea; lra|].
      split; [intros S; specialize (X2 S); rewrite Ea; lra|].
      split; [rewrite Ea; intros S T; specialize (X3 S T); lra|].
      exists k. rewrite Ea. exact A.
    + destruct (snap_grid_none_neg x0 x1 rs tol N Hx Ht) as (nx & Eq & N1 & C1 & X1 & X2).
      exists x1, nx. split; [exact Eq|].
      assert (Pt : 0 <= tol * - rs) by (apply Qmult_le_0_compat; lra).
      split; [exact N1|]. split; [rewrite Ea; ring|]. split; [rewrite Ea; lra|]. split; [rewrite Ea; lra|].
      split; [rewrite Ea; lra|]. split; [rewrite Ea; lra|].
      split; [intros S; specialize (X2 S); rewrite Ea; lra|].
      split; [rewrite Ea; intros S T; lra|].
      reflexivity.
Qed.

(** ** anchors *)
Definition snap2_ok (s : option (Q * Q)) : Prop :=
  match s with None => True | Some (sx, sy) => (0 <= sx /\ sx < 1) /\ (0 <= sy /\ sy < 1) end.

Lemma snap2_ok_fst s : snap2_ok s -> snap_ok (option_map fst s).
Proof. destruct s as [[sx sy]|]; simpl; tauto. Qed.
Lemma snap2_ok_snd s : snap2_ok s -> snap_ok (option_map snd s).
Proof. destruct s as [[sx sy]|]; simpl; tauto. Qed.

Lemma snap_of_table tight anchor :
  (tight = true -> snap_of tight anchor = None) /\
  (tight = false ->
   match anchor with
   | AnDefault | AnEdge => snap_of tight anchor = Some (0, 0)
   | AnCenter => snap_of tight anchor = Some (1#2, 1#2)
   | AnFloating => snap_of tight anchor = None
   | AnXY x y => snap_of tight anchor = Some (x, y)
   | AnNum a => exists sx sy, snap_of tight anchor = Some (sx, sy) /\ sx == a /\ sy == a
   end).
Proof.
  split; intros ->.
  - unfold snap_of. reflexivity.
  - destruct anchor; try reflexivity. unfold snap_of, norm_anchor.
    destruct (Qeq_bool a 0) eqn:E0.
    + apply Qeq_bool_iff in E0. exists 0, 0. repeat split; symmetry; exact E0.
    + destruct (Qeq_bool a (1#2)) eqn:E1.
      * apply Qeq_bool_iff in E1. exists (1#2), (1#2). repeat split; symmetry; exact E1.
      * exists a, a. repeat split; reflexivity.
Qed.

(** ** resolution-driven construction *)
Definition not_scalar (s : shape_in) : Prop := match s with ShScalar _ => False | _ => True end.

Lemma from_bbox_resolution b tight shape rr anchor tol :
  not_scalar shape ->
  ~ fst (res_xy rr) == 0 -> ~ snd (res_xy rr) == 0 ->
  bl b <= br b -> bb b <= bt b -> 0 <= tol -> snap2_ok (snap_of tight anchor) ->
  exists nx ny offx offy A,
    from_bbox b tight shape (Some rr) anchor tol = Ok ((ny, nx), A) /\
    aff_eq A (mkAff (fst (res_xy rr)) 0 offx 0 (snd (res_xy rr)) offy) /\
    axis_spec (bl b) (br b) (fst (res_xy rr)) (option_map fst (snap_of tight anchor)) tol offx nx /\
    axis_spec (bb b) (bt b) (snd (res_xy rr)) (option_map snd (snap_of tight anchor)) tol offy ny.
Proof.
  intros Hs Hrx Hry Hx Hy Ht Hsn. unfold from_bbox.
  assert (E : (match shape with
               | ShScalar n =>
                   if Qeq_bool (span_y b) 0 then Err EZeroDiv
                   else if Qeq_bool n 0 then Err EZeroDiv
                   else if Qltb 1 (span_x b / span_y b) then Ok (Some (RScalar (span_x b / n)), ShNone)
                   else Ok (Some (RScalar (span_y b / n)), ShNone)
               | _ => Ok (Some rr, shape)
               end) = Ok (Some rr, shape)) by (destruct shape; [reflexivity | contradiction | reflexivity]).
  rewrite E. cbn [bind].
  destruct (res_xy rr) as [rx ry] eqn:ER. cbn [fst snd] in *.
  destruct (snap_grid_axis (bl b) (br b) rx (option_map fst (snap_of tight anchor)) tol Hrx Hx (snap2_ok_fst _ Hsn) Ht)
    as (offx & nx & Ex & Sx).
  destruct (snap_grid_axis (bb b) (bt b) ry (option_map snd (snap_of tight anchor)) tol Hry Hy (snap2_ok_snd _ Hsn) Ht)
    as (offy & ny & Ey & Sy).
  rewrite Ex. cbn [bind]. rewrite Ey. cbn [bind].
  exists nx, ny, offx, offy. eexists. split; [reflexivity|].
  split; [|split; assumption].
  unfold aff_eq, aff_mul, aff_translation, aff_scale; cbn [aa ab ac ad ae af]. repeat split; ring.
Qed.

(** minimal pixel count per axis (0 <= tol <= 1/2) *)
Definition axis_minimal (x0 x1 rs : Q) (o : option Q) (tol tx : Q) (n : Z) : Prop :=
  match o with
  | Some _ =>
      x0 + tol * Qabs rs <= grid_lo rs tx n + Qabs rs /\
      ((2 <= n)%Z -> grid_lo rs tx n + inject_Z n * Qabs rs - Qabs rs <= x1 - tol * Qabs rs)
  | None => (2 <= n)%Z -> (inject_Z n - 1) * Qabs rs <= x1 - x0 - tol * Qabs rs
  end.

Lemma snap_grid_axis_minimal x0 x1 rs o tol tx n : ~ rs == 0 -> 0 <= tol -> tol <= 1 # 2 ->
  snap_grid x0 x1 rs o tol = Ok (tx, n) -> axis_minimal x0 x1 rs o tol tx n.
Proof.
  intros Hr Ht Hh H. unfold axis_minimal, grid_lo. destruct o as [o|].
  - exact (snap_grid_some_min _ _ _ _ _ _ _ Hr Ht Hh H).
  - exact (snap_grid_none_min _ _ _ _ _ _ Hr Ht Hh H).
Qed.

Lemma axis_minimal_comp x0 x1 rs o tol tx tx' n : tx == tx' ->
  axis_minimal x0 x1 rs o tol tx n -> axis_minimal x0 x1 rs o tol tx' n.
Proof.
  intros E. unfold axis_minimal, grid_lo. destruct o; [|auto].
  destruct (Qltb 0 rs); rewrite E; auto.
Qed.

Lemma from_bbox_resolution_minimal b tight shape rr anchor tol ny nx A :
  not_scalar shape -> ~ fst (res_xy rr) == 0 -> ~ snd (res_xy rr) == 0 -> 0 <= tol -> tol <= 1 # 2 ->
  from_bbox b tight shape (Some rr) anchor tol = Ok ((ny, nx), A) ->
  axis_minimal (bl b) (br b) (fst (res_xy rr)) (option_map fst (snap_of tight anchor)) tol (ac A) nx /\
  axis_minimal (bb b) (bt b) (snd (res_xy rr)) (option_map snd (snap_of tight anchor)) tol (af A) ny.
Proof.
  intros Hs Hrx Hry Ht Hh. unfold from_bbox.
  assert (E : (match shape with
               | ShScalar n =>
                   if Qeq_bool (span_y b) 0 then Err EZeroDiv
                   else if Qeq_bool n 0 then Err EZeroDiv
                   else if Qltb 1 (span_x b / span_y b) then Ok (Some (RScalar (span_x b / n)), ShNone)
                   else Ok (Some (RScalar (span_y b / n)), ShNone)
               | _ => Ok (Some rr, shape)
               end) = Ok (Some rr, shape)) by (destruct shape; [reflexivity | contradiction | reflexivity]).
  rewrite E. cbn [bind].
  destruct (res_xy rr) as [rx ry]. cbn [fst snd] in *.
  destruct (snap_grid (bl b) (br b) rx (option_map fst (snap_of tight anchor)) tol) as [[offx nx']|] eqn:Ex; [|discriminate].
  cbn [bind].
  destruct (snap_grid (bb b) (bt b) ry (option_map snd (snap_of tight anchor)) tol) as [[offy ny']|] eqn:Ey; [|discriminate].
  cbn [bind]. intros H. injection H as <- <- <-.
  split.
  - apply (axis_minimal_comp _ _ _ _ _ offx); [|exact (snap_grid_axis_minimal _ _ _ _ _ _ _ Hrx Ht Hh Ex)].
    unfold aff_mul, aff_translation, aff_scale; cbn [aa ab ac ad ae af]. ring.
  - apply (axis_minimal_comp _ _ _ _ _ offy); [|exact (snap_grid_axis_minimal _ _ _ _ _ _ _ Hry Ht Hh Ey)].
    unfold aff_mul, aff_translation, aff_scale; cbn [aa ab ac ad ae af]. ring.
Qed.

(** ** shape-driven construction *)
Lemma div_le_self s (n : Z) : 0 <= s -> (1 <= n)%Z -> s / inject_Z n <= s.
Proof.
  intros Hs Hn. assert (N : 1 <= inject_Z n) by (rewrite Zle_Qle in Hn; exact Hn).
  apply Qle_shift_div_r; [lra|].
  assert (P : 0 <= s * (inject_Z n - 1)) by (apply Qmult_le_0_compat; lra). lra.
Qed.

Lemma div_pos s (n : Z) : 0 < s -> (1 <= n)%Z -> 0 < s / inject_Z n.
Proof.
  intros Hs Hn. assert (N : 1 <= inject_Z n) by (rewrite Zle_Qle in Hn; exact Hn).
  apply Qlt_shift_div_l; lra.
Qed.

Lemma from_bbox_shape b tight ny nx anchor tol :
  (1 <= nx)%Z -> (1 <= ny)%Z -> bl b < br b -> bb b < bt b -> 0 <= tol -> tol < 1 ->
  snap2_ok (snap_of tight anchor) ->
  exists A,
    from_bbox b tight (ShYX ny nx) None anchor tol = Ok ((ny, nx), A) /\
    aa A == span_x b / inject_Z nx /\ ae A == - (span_y b / inject_Z ny) /\ ab A == 0 /\ ad A == 0 /\
    inject_Z nx * aa A == span_x b /\ inject_Z ny * - ae A == span_y b /\
    match snap_of tight anchor with
    | None => ac A == bl b /\ af A == bt b
    | Some (sx, sy) =>
        Qabs (ac A - bl b) < aa A /\ Qabs (af A - bt b) < - ae A /\
        (exists k : Z, ac A == (inject_Z k + sx) * aa A) /\
        (exists k : Z, af A == (inject_Z k + sy) * - ae A)
    end.
Proof.
  intros Hnx Hny Hx Hy Ht Ht1 Hsn. unfold from_bbox. cbn [bind].
  assert (E1 : (nx =? 0)%Z = false) by (apply Z.eqb_neq; lia). rewrite E1.
  assert (E2 : (ny =? 0)%Z = false) by (apply Z.eqb_neq; lia). rewrite E2.
  assert (Nx : 1 <= inject_Z nx) by (rewrite Zle_Qle in Hnx; exact Hnx).
  assert (Ny : 1 <= inject_Z ny) by (rewrite Zle_Qle in Hny; exact Hny).
  assert (Sx : 0 < span_x b) by (unfold span_x; lra).
  assert (Sy : 0 < span_y b) by (unfold span_y; lra).
  pose proof (div_pos _ _ Sx Hnx) as Px. pose proof (div_pos _ _ Sy Hny) as Py.
  pose proof (div_le_self (span_x b) nx (Qlt_le_weak _ _ Sx) Hnx) as Lx.
  pose proof (div_le_self (span_y b) ny (Qlt_le_weak _ _ Sy) Hny) as Ly.
  assert (Ery : - span_y b / inject_Z ny == - (span_y b / inject_Z ny)) by (field; lra).
  assert (Mx : inject_Z nx * (span_x b / inject_Z nx) == span_x b) by (field; lra).
  assert (My : inject_Z ny * (span_y b / inject_Z ny) == span_y b) by (field; lra).
  destruct (snap_of tight anchor) as [[sx sy]|] eqn:ES.
  - destruct Hsn as [Hsx Hsy].
    assert (Hrx : ~ span_x b / inject_Z nx == 0) by lra.
    assert (Hry : ~ - span_y b / inject_Z ny == 0) by lra.
    destruct (snap_grid_axis (bl b) (br b) (span_x b / inject_Z nx) (Some sx) tol Hrx (Qlt_le_weak _ _ Hx) Hsx Ht)
      as (offx & nx' & Ex & Ax).
    destruct (snap_grid_axis (bb b) (bt b) (- span_y b / inject_Z ny) (Some sy) tol Hry (Qlt_le_weak _ _ Hy) Hsy Ht)
      as (offy & ny' & Ey & Ay).
    rewrite Ex. cbn [bind]. rewrite Ey. cbn [bind fst snd].
    eexists. split; [reflexivity|].
    unfold aff_mul, aff_translation, aff_scale; cbn [aa ab ac ad ae af].
    split; [ring|]. split; [rewrite Ery; ring|]. split; [ring|]. split; [ring|].
    split; [field; lra|]. split; [field; lra|].
    (* x axis: positive resolution, offx is the low edge *)
    unfold axis_spec, grid_lo, grid_hi in Ax, Ay.
    assert (Bx : Qltb 0 (span_x b / inject_Z nx) = true) by (apply Qltb_true; exact Px). rewrite Bx in Ax.
    assert (By : Qltb 0 (- span_y b / inject_Z ny) = false) by (apply Qltb_false; lra). rewrite By in Ay.
    assert (Eax : Qabs (span_x b / inject_Z nx) == span_x b / inject_Z nx) by (apply Qabs_pos; lra).
    assert (Eay : Qabs (- span_y b / inject_Z ny) == span_y b / inject_Z ny) by (rewrite Ery, Qabs_opp; apply Qabs_pos; lra).
    rewrite Eax in Ax. rewrite Eay in Ay.
    destruct Ax as (_ & _ & A1 & _ & _ & _ & A2 & _ & (kx & Kx)).
    destruct Ay as (_ & _ & _ & B1 & _ & _ & _ & B2 & (ky & Ky)).
    specialize (A2 Hx). destruct A2 as [A2 _].
    assert (B2' : offy - bt b < span_y b / inject_Z ny) by (apply B2; [unfold span_y in *; lra | exact Ht1]).
    assert (T1 : tol * (span_x b / inject_Z nx) < span_x b / inject_Z nx).
    { assert (P : 0 < (1 - tol) * (span_x b / inject_Z nx)) by (apply Qmult_lt_0_compat; lra). lra. }
    assert (T2 : tol * (span_y b / inject_Z ny) < span_y b / inject_Z ny).
    { assert (P : 0 < (1 - tol) * (span_y b / inject_Z ny)) by (apply Qmult_lt_0_compat; lra). lra. }
    split.
    { setoid_replace (1 * 0 + 0 * 0 + offx - bl b) with (offx - bl b) by ring.
      setoid_replace (1 * (span_x b / inject_Z nx) + 0 * 0) with (span_x b / inject_Z nx) by ring.
      destruct (Qabs_case_lra (offx - bl b)) as [(?&->)|(?&->)]; lra. }
    split.
    { setoid_replace (0 * 0 + 1 * 0 + offy - bt b) with (offy - bt b) by ring.
      setoid_replace (- (0 * 0 + 1 * (- span_y b / inject_Z ny))) with (span_y b / inject_Z ny) by (rewrite Ery; ring).
      destruct (Qabs_case_lra (offy - bt b)) as [(?&->)|(?&->)]; lra. }
    split.
    { exists kx. rewrite Kx, Eax. field. lra. }
    { exists ky. rewrite Ky, Eay. field. lra. }
  - cbn [bind fst snd]. eexists. split; [reflexivity|].
    unfold aff_mul, aff_translation, aff_scale; cbn [aa ab ac ad ae af].
    split; [ring|]. split; [rewrite Ery; ring|]. split; [ring|]. split; [ring|].
    split; [field; lra|]. split; [field; lra|].
    split; ring.
Qed.

Lemma from_bbox_no_shape_no_resolution b tight anchor tol :
  from_bbox b tight ShNone None anchor tol = Err EValue.
Proof. reflexivity. Qed.

(** a single number as [shape]: resolution = longest span / n, square pixels, then as above *)
Lemma from_bbox_int_shape b tight n resolution anchor tol :
  ~ span_y b == 0 -> ~ n == 0 ->
  from_bbox b tight (ShScalar n) resolution anchor tol =
  from_bbox b tight ShNone
            (Some (RScalar ((if Qltb 1 (span_x b / span_y b) then span_x b else span_y b) / n))) anchor tol.
Proof.
  intros Hy Hn. unfold from_bbox.
  assert (E1 : Qeq_bool (span_y b) 0 = false).
  { destruct (Qeq_bool (span_y b) 0) eqn:E; [apply Qeq_bool_iff in E; contradiction | reflexivity]. }
  assert (E2 : Qeq_bool n 0 = false).
  { destruct (Qeq_bool n 0) eqn:E; [apply Qeq_bool_iff in E; contradiction | reflexivity]. }
  rewrite E1, E2. destruct (Qltb 1 (span_x b / span_y b)); reflexivity.
Qed.

Lemma maybe_int_of_int x tol (m : Z) : x == inject_Z m -> maybe_int x tol == inject_Z m.
Proof.
  intros E. destruct (maybe_int_cases x tol) as [(n & _ & -> & _ & H1 & H2)|(_ & -> & _)]; [|exact E].
  rewrite E in H1, H2. assert (n = m) by (apply inject_Z_close; lra). subst. reflexivity.
Qed.

Lemma floating_count x0 x1 rs tol (m : Z) : (1 <= m)%Z -> ~ rs == 0 -> (x1 - x0) / Qabs rs == inject_Z m ->
  exists tx, snap_grid x0 x1 rs None tol = Ok (tx, m).
Proof.
  intros Hm Hr E. unfold snap_grid.
  destruct (Qltb 0 rs) eqn:B.
  - apply Qltb_true in B. rewrite (Qabs_pos rs) in E by lra.
    pose proof (maybe_int_of_int _ tol m E) as M. rewrite (Qceiling_comp _ _ M), Qceiling_Z.
    rewrite Z.max_r by lia. eauto.
  - apply Qltb_false in B. assert (N : rs < 0) by (apply Qnot_le_lt; intros C; apply Hr; lra).
    destruct (Qeq_bool rs 0) eqn:Z0; [apply Qeq_bool_iff in Z0; contradiction|].
    rewrite (Qabs_neg rs) in E by lra.
    pose proof (maybe_int_of_int _ tol m E) as M. rewrite (Qceiling_comp _ _ M), Qceiling_Z.
    rewrite Z.max_l by lia. eauto.
Qed.

Lemma from_bbox_int_shape_tight b (m : Z) resolution anchor tol :
  (1 <= m)%Z -> bl b < br b -> bb b < bt b -> 0 <= tol ->
  exists nx ny A, from_bbox b true (ShScalar (inject_Z m)) resolution anchor tol = Ok ((ny, nx), A) /\
                  (if Qltb 1 (span_x b / span_y b) then nx = m else ny = m) /\
                  ae A == - aa A /\ (1 <= nx)%Z /\ (1 <= ny)%Z.
Proof.
  intros Hm Hx Hy Ht.
  assert (Sx : 0 < span_x b) by (unfold span_x; lra).
  assert (Sy : 0 < span_y b) by (unfold span_y; lra).
  assert (Nm : 1 <= inject_Z m) by (rewrite Zle_Qle in Hm; exact Hm).
  rewrite from_bbox_int_shape by lra.
  set (s := if Qltb 1 (span_x b / span_y b) then span_x b else span_y b).
  assert (Ps : 0 < s) by (unfold s; destruct (Qltb 1 (span_x b / span_y b)); assumption).
  assert (Pr : 0 < s / inject_Z m) by (apply Qlt_shift_div_l; lra).
  assert (R1 : ~ fst (res_xy (RScalar (s / inject_Z m))) == 0) by (simpl; lra).
  assert (R2 : ~ snd (res_xy (RScalar (s / inject_Z m))) == 0) by (simpl; lra).
  destruct (from_bbox_resolution b true ShNone (RScalar (s / inject_Z m)) anchor tol I R1 R2
              (Qlt_le_weak _ _ Hx) (Qlt_le_weak _ _ Hy) Ht I)
    as (nx & ny & offx & offy & A & E & EA & Ax & Ay).
  exists nx, ny, A. split; [exact E|].
  destruct EA as (Ea & _ & _ & _ & Ee & _). cbn [aa ae res_xy fst snd] in Ea, Ee.
  split; [|split; [rewrite Ea, Ee; reflexivity | split; [apply Ax | apply Ay]]].
  (* count along the longest dimension *)
  unfold from_bbox in E. cbn [bind res_xy snap_of option_map] in E.
  unfold s in *. destruct (Qltb 1 (span_x b / span_y b)) eqn:Asp.
  - destruct (floating_count (bl b) (br b) (span_x b / inject_Z m) tol m Hm) as (tx & Ec).
    + lra.
    + rewrite Qabs_pos by lra. unfold span_x. field. split; unfold span_x in Sx; lra.
    + rewrite Ec in E. cbn [bind] in E.
      destruct (snap_grid (bb b) (bt b) (- (span_x b / inject_Z m)) None tol) as [[ty ny']|]; [|discriminate].
      cbn [bind] in E. injection E as _ E2 _. symmetry. exact E2.
  - destruct (snap_grid (bl b) (br b) (span_y b / inject_Z m) None tol) as [[tx nx']|]; [|discriminate].
    cbn [bind] in E.
    destruct (floating_count (bb b) (bt b) (- (span_y b / inject_Z m)) tol m Hm) as (ty & Ec).
    + lra.
    + rewrite Qabs_opp, Qabs_pos by lra. unfold span_y. field. split; unfold span_y in Sy; lra.
    + rewrite Ec in E. cbn [bind] in E. injection E as E1 _ _. symmetry. exact E1.
Qed.

(** ** polygon variant *)
Lemma Qmin2_le a b : Qmin2 a b <= a /\ Qmin2 a b <= b.
Proof.
  unfold Qmin2. destruct (Qle_bool a b) eqn:E; [apply Qle_bool_iff in E | apply Qle_bool_false in E]; lra.
Qed.
Lemma Qmax2_ge a b : a <= Qmax2 a b /\ b <= Qmax2 a b.
Proof.
  unfold Qmax2. destruct (Qle_bool a b) eqn:E; [apply Qle_bool_iff in E | apply Qle_bool_false in E]; lra.
Qed.

Definition inside (b : bbox) (p : Q * Q) : Prop :=
  bl b <= fst p /\ fst p <= br b /\ bb b <= snd p /\ snd p <= bt b.

Lemma bbox_fold_contains pts : forall acc,
  (forall p, inside acc p -> inside (fold_left (fun acc p => mkBBox (Qmin2 (bl acc) (fst p)) (Qmin2 (bb acc) (snd p))
                                 (Qmax2 (br acc) (fst p)) (Qmax2 (bt acc) (snd p))) pts acc) p) /\
  (forall p, In p pts -> inside (fold_left (fun acc p => mkBBox (Qmin2 (bl acc) (fst p)) (Qmin2 (bb acc) (snd p))
                                 (Qmax2 (br acc) (fst p)) (Qmax2 (bt acc) (snd p))) pts acc) p).
Proof.
  induction pts as [|q pts IH]; intros acc; simpl.
  - split; [auto | intros p []].
  - set (acc' := mkBBox (Qmin2 (bl acc) (fst q)) (Qmin2 (bb acc) (snd q)) (Qmax2 (br acc) (fst q)) (Qmax2 (bt acc) (snd q))).
    destruct (IH acc') as [I1 I2].
    assert (Grow : forall p, inside acc p -> inside acc' p).
    { intros p (H1 & H2 & H3 & H4). unfold inside, acc'; simpl.
      pose proof (Qmin2_le (bl acc) (fst q)). pose proof (Qmin2_le (bb acc) (snd q)).
      pose proof (Qmax2_ge (br acc) (fst q)). pose proof (Qmax2_ge (bt acc) (snd q)). repeat split; lra. }
    assert (Qin : inside acc' q).
    { unfold inside, acc'; simpl.
      pose proof (Qmin2_le (bl acc) (fst q)). pose proof (Qmin2_le (bb acc) (snd q)).
      pose proof (Qmax2_ge (br acc) (fst q)). pose proof (Qmax2_ge (bt acc) (snd q)). repeat split; lra. }
    split.
    + intros p Hp. apply I1, Grow, Hp.
    + intros p [<-|Hp]; [apply I1, Qin | apply I2, Hp].
Qed.

Lemma bbox_of_points_contains p0 pts p : In p (p0 :: pts) -> inside (bbox_of_points p0 pts) p.
Proof.
  unfold bbox_of_points. destruct (bbox_fold_contains pts (mkBBox (fst p0) (snd p0) (fst p0) (snd p0))) as [I1 I2].
  intros [<-|H]; [|apply I2, H].
  apply I1. unfold inside; simpl. repeat split; lra.
Qed.

Lemma bbox_of_points_ordered p0 pts :
  bl (bbox_of_points p0 pts) <= br (bbox_of_points p0 pts) /\ bb (bbox_of_points p0 pts) <= bt (bbox_of_points p0 pts).
Proof.
  destruct (bbox_of_points_contains p0 pts p0 (or_introl eq_refl)) as (H1 & H2 & H3 & H4). split; lra.
Qed.

(** legacy [align] (CRS units) becomes an anchor (pixel fraction): edges sit at
    [align + k * |res|] *)
Lemma from_geopolygon_align b rr ax ay shape tol anchor :
  not_scalar shape ->
  ~ fst (res_xy rr) == 0 -> ~ snd (res_xy rr) == 0 ->
  ~ (ax == 0 /\ ay == 0) ->
  0 <= ax -> ax < Qabs (fst (res_xy rr)) -> 0 <= ay -> ay < Qabs (snd (res_xy rr)) ->
  bl b <= br b -> bb b <= bt b -> 0 <= tol ->
  exists nx ny offx offy A,
    from_geopolygon_bbox b (Some rr) (Some (ax, ay)) shape false anchor tol = Ok ((ny, nx), A) /\
    aff_eq A (mkAff (fst (res_xy rr)) 0 offx 0 (snd (res_xy rr)) offy) /\
    axis_spec (bl b) (br b) (fst (res_xy rr)) (Some (ax / Qabs (fst (res_xy rr)))) tol offx nx /\
    axis_spec (bb b) (bt b) (snd (res_xy rr)) (Some (ay / Qabs (snd (res_xy rr)))) tol offy ny /\
    (exists k : Z, offx == inject_Z k * Qabs (fst (res_xy rr)) + ax) /\
    (exists k : Z, offy == inject_Z k * Qabs (snd (res_xy rr)) + ay).
Proof.
  intros Hs Hrx Hry Hz Ax0 Ax1 Ay0 Ay1 Hx Hy Ht. unfold from_geopolygon_bbox.
  assert (E0 : Qeq_bool ax 0 && Qeq_bool ay 0 = false).
  { destruct (Qeq_bool ax 0) eqn:E1; destruct (Qeq_bool ay 0) eqn:E2; try reflexivity.
    exfalso. apply Hz. split; apply Qeq_bool_iff; assumption. }
  rewrite E0. destruct (res_xy rr) as [rx ry] eqn:ER. cbn [fst snd] in *.
  assert (E1 : Qeq_bool rx 0 = false) by (destruct (Qeq_bool rx 0) eqn:E; [apply Qeq_bool_iff in E; contradiction | reflexivity]).
  assert (E2 : Qeq_bool ry 0 = false) by (destruct (Qeq_bool ry 0) eqn:E; [apply Qeq_bool_iff in E; contradiction | reflexivity]).
  rewrite E1, E2. cbn [bind fst snd].
  assert (Px : 0 < Qabs rx) by (destruct (Qabs_case_lra rx) as [(?&->)|(?&->)]; lra).
  assert (Py : 0 < Qabs ry) by (destruct (Qabs_case_lra ry) as [(?&->)|(?&->)]; lra).
  assert (Ok2 : snap2_ok (snap_of false (AnXY (ax / Qabs rx) (ay / Qabs ry)))).
  { simpl. repeat split.
    - apply Qle_shift_div_l; lra.
    - apply Qlt_shift_div_r; lra.
    - apply Qle_shift_div_l; lra.
    - apply Qlt_shift_div_r; lra. }
  assert (R1 : ~ fst (res_xy (RXY rx ry)) == 0) by exact Hrx.
  assert (R2 : ~ snd (res_xy (RXY rx ry)) == 0) by exact Hry.
  destruct (from_bbox_resolution b false shape (RXY rx ry) (AnXY (ax / Qabs rx) (ay / Qabs ry)) tol Hs R1 R2 Hx Hy Ht Ok2)
    as (nx & ny & offx & offy & A & E & EA & Sx & Sy).
  cbn [res_xy fst snd snap_of norm_anchor option_map] in *.
  exists nx, ny, offx, offy, A. split; [exact E|]. split; [exact EA|]. split; [exact Sx|]. split; [exact Sy|].
  destruct Sx as (_ & _ & _ & _ & _ & _ & _ & _ & (kx & Kx)).
  destruct Sy as (_ & _ & _ & _ & _ & _ & _ & _ & (ky & Ky)).
  split; [exists kx; rewrite Kx; field; lra | exists ky; rewrite Ky; field; lra].
Qed.

Lemma from_geopolygon_no_align b resolution shape tight anchor tol :
  from_geopolygon_bbox b resolution None shape tight anchor tol = from_bbox b tight shape resolution anchor tol.
Proof. reflexivity. Qed.

Lemma from_geopolygon_zero_align b resolution shape tight anchor tol :
  from_geopolygon_bbox b resolution (Some (0, 0)) shape tight anchor tol = from_bbox b tight shape resolution AnEdge tol.
Proof. reflexivity. Qed.

(** ** zoom_to(resolution=) *)
Lemma zoom_to_resolution_spec (g : gbox) rr tol :
  ~ fst (res_xy rr) == 0 -> ~ snd (res_xy rr) == 0 -> 0 <= tol ->
  let B := bbox_from_transform (fst g) (snd g) in
  exists nx ny offx offy A,
    zoom_to_resolution g rr tol = Ok ((ny, nx), A) /\
    aff_eq A (mkAff (fst (res_xy rr)) 0 offx 0 (snd (res_xy rr)) offy) /\
    axis_spec (bl B) (br B) (fst (res_xy rr)) None tol offx nx /\
    axis_spec (bb B) (bt B) (snd (res_xy rr)) None tol offy ny /\
    (* B really is the footprint's bounding box: it contains the four corners *)
    (let '(ny0, nx0) := fst g in
     forall p, In p [(0, 0); (inject_Z nx0, 0); (inject_Z nx0, inject_Z ny0); (0, inject_Z ny0)] ->
               inside B (aff_apply (snd g) p)).
Proof.
  intros Hrx Hry Ht B. unfold zoom_to_resolution. fold B.
  assert (Ord : bl B <= br B /\ bb B <= bt B).
  { unfold B, bbox_from_transform. destruct (fst g) as [ny0 nx0]. apply bbox_of_points_ordered. }
  destruct Ord as [Ox Oy].
  destruct (from_bbox_resolution B true ShNone rr AnDefault tol I Hrx Hry Ox Oy Ht I)
    as (nx & ny & offx & offy & A & E & EA & Sx & Sy).
  exists nx, ny, offx, offy, A. split; [exact E|]. split; [exact EA|]. split; [exact Sx|]. split; [exact Sy|].
  unfold B, bbox_from_transform. destruct (fst g) as [ny0 nx0].
  intros p Hp. apply bbox_of_points_contains.
  simpl in Hp. destruct Hp as [<-|[<-|[<-|[<-|[]]]]]; simpl; auto.
Qed.
