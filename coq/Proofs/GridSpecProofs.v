(** Lemmas for property C14 (GridSpec tiles the plane). *)
From Coq Require Import ZArith QArith Qround Qabs Qpower List Bool Lia Lqa FinFun.
From OG Require Import Base.Result Base.QZ Base.QMinMax Base.ZRange Model.GridSpec.
Import ListNotations.
Open Scope Q_scope.

(** ** Bin1D *)
Definition bin_ok (b : bin1d) : Prop := 0 < b_sz b /\ (b_dir b = 1%Z \/ b_dir b = (-1)%Z).

Lemma bin_new_ok sz o d b : bin_new sz o d = Ok b -> bin_ok b /\ b = mkBin sz o d.
Proof.
  unfold bin_new.
  destruct ((d =? -1)%Z || (d =? 1)%Z) eqn:Ed; simpl; [|discriminate].
  destruct (Qlt_bool 0 sz) eqn:Es; simpl; [|discriminate].
  intros H; inversion H; subst. split; [|reflexivity].
  split; simpl; [apply Qlt_bool_true; exact Es|].
  apply orb_true_iff in Ed. destruct Ed as [E|E]; apply Z.eqb_eq in E; auto.
Qed.

Lemma bin_new_succeeds sz o d : 0 < sz -> (d = 1%Z \/ d = (-1)%Z) ->
  bin_new sz o d = Ok (mkBin sz o d).
Proof.
  intros Hs Hd. unfold bin_new.
  assert (E : ((d =? -1)%Z || (d =? 1)%Z) = true).
  { destruct Hd; subst; reflexivity. }
  rewrite E. simpl. apply Qlt_bool_true in Hs. rewrite Hs. reflexivity.
Qed.

(** the "slot" of index [i]: position counted from the origin in units of [sz] *)
Definition slot (b : bin1d) (i : Z) : Z := (b_dir b * i)%Z.

Lemma getitem_slot b i : bin_ok b ->
  fst (bin_getitem b i) == inject_Z (slot b i) * b_sz b + b_origin b /\
  snd (bin_getitem b i) == (inject_Z (slot b i) + 1) * b_sz b + b_origin b.
Proof.
  intros [_ Hd]. unfold bin_getitem, slot; simpl.
  destruct Hd as [-> | ->].
  - replace (1 * i)%Z with i by lia. split; ring.
  - replace (-1 * i)%Z with (- i)%Z by lia. rewrite inject_Z_opp.
    change (inject_Z (-1)) with (-(1)). split; ring.
Qed.

(** floor position of a coordinate *)
Definition kpos (b : bin1d) (x : Q) : Z := Qfloor ((x - b_origin b) / b_sz b).

Lemma bin_is_kpos b x : bin_bin b x = (b_dir b * kpos b x)%Z.
Proof. reflexivity. Qed.

Lemma kpos_le_iff b x k : 0 < b_sz b ->
  ((k <= kpos b x)%Z <-> inject_Z k * b_sz b + b_origin b <= x).
Proof.
  intros Hs. unfold kpos. rewrite Qfloor_ge_iff, Qdiv_ge_iff by exact Hs.
  split; intros; lra.
Qed.

Lemma kpos_lt_iff b x k : 0 < b_sz b ->
  ((kpos b x < k)%Z <-> x < inject_Z k * b_sz b + b_origin b).
Proof.
  intros Hs. unfold kpos. rewrite Qfloor_lt_iff, Qdiv_lt_iff by exact Hs.
  split; intros; lra.
Qed.

(** interval [i] lies left of / reaches beyond a coordinate *)
Lemma lo_le_iff b i x : bin_ok b ->
  (fst (bin_getitem b i) <= x <-> (slot b i <= kpos b x)%Z).
Proof.
  intros Hb. destruct (getitem_slot b i Hb) as [E _]. rewrite E.
  symmetry. apply kpos_le_iff. apply Hb.
Qed.

Lemma lt_hi_iff b i x : bin_ok b ->
  (x < snd (bin_getitem b i) <-> (kpos b x <= slot b i)%Z).
Proof.
  intros Hb. destruct (getitem_slot b i Hb) as [_ E]. rewrite E.
  assert (E2 : (inject_Z (slot b i) + 1) == inject_Z (slot b i + 1)).
  { rewrite inject_Z_plus. reflexivity. }
  rewrite E2. rewrite <- kpos_lt_iff by apply Hb. lia.
Qed.

Lemma slot_inj b i j : bin_ok b -> slot b i = slot b j -> i = j.
Proof. intros [_ [E|E]]; unfold slot; rewrite E; lia. Qed.

Lemma bin_slot b x : bin_ok b -> slot b (bin_bin b x) = kpos b x.
Proof.
  intros [_ [E|E]]; unfold slot; rewrite bin_is_kpos, E; lia.
Qed.

(** point lookup returns [i] exactly for the points of the half-open interval [i] *)
Lemma bin_iff b x i : bin_ok b ->
  (bin_bin b x = i <-> fst (bin_getitem b i) <= x /\ x < snd (bin_getitem b i)).
Proof.
  intros Hb. rewrite lo_le_iff, lt_hi_iff by exact Hb.
  split.
  - intros <-. rewrite bin_slot by exact Hb. lia.
  - intros [H1 H2]. apply (slot_inj b); [exact Hb|]. rewrite bin_slot by exact Hb. lia.
Qed.

Lemma interval_width b i : snd (bin_getitem b i) == fst (bin_getitem b i) + b_sz b.
Proof. unfold bin_getitem; simpl. reflexivity. Qed.

Lemma consecutive_share_endpoint b i : bin_ok b ->
  (b_dir b = 1%Z -> snd (bin_getitem b i) == fst (bin_getitem b (i + 1))) /\
  (b_dir b = (-1)%Z -> fst (bin_getitem b i) == snd (bin_getitem b (i + 1))).
Proof.
  intros Hb. unfold bin_getitem; simpl. split; intros E; rewrite E, inject_Z_plus.
  - change (inject_Z 1) with 1. ring.
  - change (inject_Z 1) with 1. change (inject_Z (-1)) with (-(1)). ring.
Qed.

(** intervals of distinct indices do not overlap: one ends where or before the other starts *)
Lemma distinct_disjoint b i j : bin_ok b -> i <> j ->
  snd (bin_getitem b i) <= fst (bin_getitem b j) \/ snd (bin_getitem b j) <= fst (bin_getitem b i).
Proof.
  intros Hb Hij.
  destruct (getitem_slot b i Hb) as [Ei1 Ei2]. destruct (getitem_slot b j Hb) as [Ej1 Ej2].
  rewrite Ei1, Ei2, Ej1, Ej2.
  assert (Hs : slot b i <> slot b j) by (intros C; apply Hij; eapply slot_inj; eauto).
  destruct Hb as [Hsz _].
  destruct (Z_lt_ge_dec (slot b i) (slot b j)) as [L|G].
  - left. assert (L2 : (slot b i + 1 <= slot b j)%Z) by lia.
    rewrite Zle_Qle in L2. rewrite inject_Z_plus in L2. change (inject_Z 1) with 1 in L2.
    set (u := inject_Z (slot b i)) in *. set (v := inject_Z (slot b j)) in *.
    assert ((u + 1) * b_sz b <= v * b_sz b) by (apply Qmult_le_compat_r; lra).
    lra.
  - right. assert (L2 : (slot b j + 1 <= slot b i)%Z) by lia.
    rewrite Zle_Qle in L2. rewrite inject_Z_plus in L2. change (inject_Z 1) with 1 in L2.
    set (u := inject_Z (slot b i)) in *. set (v := inject_Z (slot b j)) in *.
    assert ((v + 1) * b_sz b <= u * b_sz b) by (apply Qmult_le_compat_r; lra).
    lra.
Qed.

(** index range covered by a coordinate range, as computed by idx_bounds on one axis *)
Lemma range_iff b a c i : bin_ok b -> a <= c ->
  ((Z.min (bin_bin b a) (bin_bin b c) <= i < Z.max (bin_bin b a) (bin_bin b c) + 1)%Z <->
   fst (bin_getitem b i) <= c /\ a < snd (bin_getitem b i)).
Proof.
  intros Hb Hac. rewrite lo_le_iff, lt_hi_iff by exact Hb.
  assert (Hk : (kpos b a <= kpos b c)%Z).
  { unfold kpos. apply Qfloor_resp_le. destruct Hb as [Hs _].
    apply Qdiv_ge_iff; [exact Hs|]. assert (E : (a - b_origin b) / b_sz b * b_sz b == a - b_origin b) by (field; lra).
    rewrite E. lra. }
  rewrite !bin_is_kpos. unfold slot.
  destruct Hb as [_ [E|E]]; rewrite E; lia.
Qed.

Lemma range_iff_narrow b a c i : bin_ok b -> c <= a ->
  ((Z.min (bin_bin b a) (bin_bin b c) <= i < Z.max (bin_bin b a) (bin_bin b c) + 1)%Z <->
   fst (bin_getitem b i) <= a /\ c < snd (bin_getitem b i)).
Proof.
  intros Hb Hca. rewrite Z.min_comm, Z.max_comm. apply range_iff; assumption.
Qed.

(** ** GridSpec *)
Definition gs_ok (g : gridspec) : Prop :=
  bin_ok (g_xbin g) /\ bin_ok (g_ybin g) /\
  (0 < g_nx g)%Z /\ (0 < g_ny g)%Z /\ ~ g_rx g == 0 /\ ~ g_ry g == 0 /\
  b_sz (g_xbin g) == inject_Z (g_nx g) * Qabs (g_rx g) /\
  b_sz (g_ybin g) == inject_Z (g_ny g) * Qabs (g_ry g).

Lemma Qabs_gt0 x : ~ x == 0 -> 0 < Qabs x.
Proof.
  intros H. destruct (Qlt_le_dec 0 x) as [L|L].
  - rewrite Qabs_pos; lra.
  - rewrite Qabs_neg by exact L. destruct (Qeq_dec x 0); [contradiction|lra].
Qed.

Lemma flipdir_ok f : flipdir f = 1%Z \/ flipdir f = (-1)%Z.
Proof. destruct f; simpl; auto. Qed.

Lemma gs_new_succeeds ny nx ry rx ox oy fx fy :
  (1 <= ny)%Z -> (1 <= nx)%Z -> ~ ry == 0 -> ~ rx == 0 ->
  exists g, gs_new ny nx ry rx ox oy fx fy = Ok g /\ gs_ok g /\
            g_ny g = ny /\ g_nx g = nx /\ g_ry g = ry /\ g_rx g = rx /\
            g_xbin g = mkBin (inject_Z nx * Qabs rx) ox (flipdir fx) /\
            g_ybin g = mkBin (inject_Z ny * Qabs ry) oy (flipdir fy).
Proof.
  intros Hny Hnx Hry Hrx. unfold gs_new.
  assert (Hx : 0 < inject_Z nx * Qabs rx).
  { apply Qmult_lt_0_compat; [|apply Qabs_gt0; exact Hrx].
    change 0 with (inject_Z 0). rewrite <- Zlt_Qlt. lia. }
  assert (Hy : 0 < inject_Z ny * Qabs ry).
  { apply Qmult_lt_0_compat; [|apply Qabs_gt0; exact Hry].
    change 0 with (inject_Z 0). rewrite <- Zlt_Qlt. lia. }
  rewrite (bin_new_succeeds _ oy _ Hy (flipdir_ok fy)). simpl.
  rewrite (bin_new_succeeds _ ox _ Hx (flipdir_ok fx)). simpl.
  eexists. split; [reflexivity|]. unfold gs_ok, bin_ok; simpl.
  repeat split; try assumption; try lia; try reflexivity; try apply flipdir_ok.
Qed.

(** construction fails (AssertionError) exactly outside the domain *)
Lemma gs_new_ok_inv ny nx ry rx ox oy fx fy g :
  gs_new ny nx ry rx ox oy fx fy = Ok g -> 0 < inject_Z nx * Qabs rx /\ 0 < inject_Z ny * Qabs ry.
Proof.
  unfold gs_new. intros H.
  apply bind_ok in H. destruct H as (yb & Hy & H).
  apply bind_ok in H. destruct H as (xb & Hx & H).
  apply bin_new_ok in Hy. apply bin_new_ok in Hx.
  destruct Hy as [[Hy _] ->]. destruct Hx as [[Hx _] ->]. simpl in *. auto.
Qed.

(** footprint of a tile: the pair of intervals *)
Definition tile_x (g : gridspec) (ix : Z) : Q * Q := bin_getitem (g_xbin g) ix.
Definition tile_y (g : gridspec) (iy : Z) : Q * Q := bin_getitem (g_ybin g) iy.

Lemma pt2idx_iff g x y ix iy : gs_ok g ->
  (pt2idx g x y = (ix, iy) <->
   (fst (tile_x g ix) <= x /\ x < snd (tile_x g ix)) /\
   (fst (tile_y g iy) <= y /\ y < snd (tile_y g iy))).
Proof.
  intros (Hx & Hy & _). unfold pt2idx, tile_x, tile_y.
  rewrite <- (bin_iff _ x ix Hx), <- (bin_iff _ y iy Hy).
  split; [intros E; inversion E; auto | intros [-> ->]; reflexivity].
Qed.

(** distinct tiles: no point lies strictly inside both *)
Lemma tiles_interiors_disjoint g ix iy jx jy x y : gs_ok g -> (ix, iy) <> (jx, jy) ->
  fst (tile_x g ix) < x < snd (tile_x g ix) -> fst (tile_y g iy) < y < snd (tile_y g iy) ->
  fst (tile_x g jx) < x < snd (tile_x g jx) -> fst (tile_y g jy) < y < snd (tile_y g jy) ->
  False.
Proof.
  intros Hg Hne H1 H2 H3 H4. apply Hne.
  assert (E1 : pt2idx g x y = (ix, iy)) by (apply pt2idx_iff; [exact Hg|]; lra).
  assert (E2 : pt2idx g x y = (jx, jy)) by (apply pt2idx_iff; [exact Hg|]; lra).
  congruence.
Qed.

(** tile GeoBox: shape, resolution, bounding box *)
Lemma Qabs_cases x : (0 < x /\ Qabs x == x) \/ (x <= 0 /\ Qabs x == - x).
Proof.
  destruct (Qlt_le_dec 0 x) as [L|L].
  - left. split; [exact L|]. apply Qabs_pos. lra.
  - right. split; [exact L|]. apply Qabs_neg. exact L.
Qed.

Lemma axis_bbox (n : Z) (r t0 t1 sz : Q) :
  (0 < n)%Z -> ~ r == 0 -> sz == inject_Z n * Qabs r -> t1 == t0 + sz ->
  let t := if Qlt_bool 0 r then t0 else t1 in
  let p (k : Z) := r * inject_Z k + t in
  min4 (p 0%Z) (p n) (p n) (p 0%Z) == t0 /\ max4 (p 0%Z) (p n) (p n) (p 0%Z) == t1 /\
  min4 (p 0%Z) (p 0%Z) (p n) (p n) == t0 /\ max4 (p 0%Z) (p 0%Z) (p n) (p n) == t1.
Proof.
  intros Hn Hr Hsz Ht1. cbv zeta.
  assert (Hn' : 0 < inject_Z n) by (change 0 with (inject_Z 0); rewrite <- Zlt_Qlt; lia).
  set (m := inject_Z n) in *.
  change (inject_Z 0) with 0.
  destruct (Qabs_cases r) as [[Hp Ea] | [Hp Ea]]; rewrite Ea in Hsz.
  - apply Qlt_bool_true in Hp as Hb. rewrite Hb.
    assert (H0 : r * 0 + t0 == t0) by ring.
    assert (H1 : r * m + t0 == t1) by (rewrite Ht1, Hsz; ring).
    assert (Hlt : t0 <= t1).
    { rewrite Ht1, Hsz. assert (0 < m * r) by (apply Qmult_lt_0_compat; assumption). lra. }
    repeat split.
    + apply (min4_two _ _ _ _ t0 t1); auto.
    + apply (max4_two _ _ _ _ t0 t1); auto.
    + apply (min4_two _ _ _ _ t0 t1); auto.
    + apply (max4_two _ _ _ _ t0 t1); auto.
  - assert (Hb : Qlt_bool 0 r = false) by (apply Qlt_bool_false; exact Hp). rewrite Hb.
    assert (Hneg : r < 0) by (destruct (Qeq_dec r 0); [contradiction | lra]).
    assert (H0 : r * 0 + t1 == t1) by ring.
    assert (H1 : r * m + t1 == t0) by (rewrite Ht1, Hsz; ring).
    assert (Hlt : t0 <= t1).
    { rewrite Ht1, Hsz. assert (0 < m * - r) by (apply Qmult_lt_0_compat; lra). lra. }
    repeat split.
    + apply (min4_two _ _ _ _ t0 t1); auto.
    + apply (max4_two _ _ _ _ t0 t1); auto 6.
    + apply (min4_two _ _ _ _ t0 t1); auto 6.
    + apply (max4_two _ _ _ _ t0 t1); auto.
Qed.

Lemma tile_geobox_spec g ix iy : gs_ok g ->
  let b := tile_geobox g (ix, iy) in
  gb_ny b = g_ny g /\ gb_nx b = g_nx g /\ gb_sx b = g_rx g /\ gb_sy b = g_ry g /\
  fst (fst (fst (gbox_bbox b))) == fst (tile_x g ix) /\
  snd (fst (fst (gbox_bbox b))) == fst (tile_y g iy) /\
  snd (fst (gbox_bbox b)) == snd (tile_x g ix) /\
  snd (gbox_bbox b) == snd (tile_y g iy).
Proof.
  intros (Hx & Hy & Hnx & Hny & Hrx & Hry & Esx & Esy). cbv zeta.
  unfold tile_geobox, tile_txy, tile_x, tile_y.
  destruct (bin_getitem (g_xbin g) ix) as [x0 x1] eqn:Ex.
  destruct (bin_getitem (g_ybin g) iy) as [y0 y1] eqn:Ey.
  assert (Wx : x1 == x0 + b_sz (g_xbin g)).
  { pose proof (interval_width (g_xbin g) ix) as W. rewrite Ex in W. exact W. }
  assert (Wy : y1 == y0 + b_sz (g_ybin g)).
  { pose proof (interval_width (g_ybin g) iy) as W. rewrite Ey in W. exact W. }
  simpl.
  destruct (axis_bbox (g_nx g) (g_rx g) x0 x1 _ Hnx Hrx Esx Wx) as (A1 & A2 & _ & _).
  destruct (axis_bbox (g_ny g) (g_ry g) y0 y1 _ Hny Hry Esy Wy) as (_ & _ & B1 & B2).
  cbv zeta in A1, A2, B1, B2.
  repeat split; assumption.
Qed.

(** which indices a bounding-box query returns, per axis *)
Definition axis_hit (b : bin1d) (tol q1 q2 : Q) (i : Z) : Prop :=
  (q1 + tol <= q2 - tol /\ fst (bin_getitem b i) <= q2 - tol /\ q1 + tol < snd (bin_getitem b i)) \/
  (q2 - tol < q1 + tol /\ fst (bin_getitem b i) <= q1 + tol /\ q2 - tol < snd (bin_getitem b i)).

Lemma axis_hit_iff b tol q1 q2 i : bin_ok b ->
  ((Z.min (bin_bin b (q1 + tol)) (bin_bin b (q2 - tol)) <= i <
    Z.max (bin_bin b (q1 + tol)) (bin_bin b (q2 - tol)) + 1)%Z <-> axis_hit b tol q1 q2 i).
Proof.
  intros Hb. unfold axis_hit.
  destruct (Qlt_le_dec (q2 - tol) (q1 + tol)) as [L|L].
  - rewrite (range_iff_narrow b _ _ i Hb) by lra. split.
    + intros H. right. split; [exact L | exact H].
    + intros [[C _] | [_ H]]; [lra | exact H].
  - rewrite (range_iff b _ _ i Hb L). split.
    + intros H. left. split; [exact L | exact H].
    + intros [[_ H] | [C _]]; [exact H | lra].
Qed.

Lemma idx_bounds_spec g tol x1 y1 x2 y2 :
  idx_bounds g tol (x1, y1, x2, y2) =
  (Z.min (bin_bin (g_xbin g) (x1 + tol)) (bin_bin (g_xbin g) (x2 - tol)),
   Z.min (bin_bin (g_ybin g) (y1 + tol)) (bin_bin (g_ybin g) (y2 - tol)),
   Z.max (bin_bin (g_xbin g) (x1 + tol)) (bin_bin (g_xbin g) (x2 - tol)) + 1,
   Z.max (bin_bin (g_ybin g) (y1 + tol)) (bin_bin (g_ybin g) (y2 - tol)) + 1)%Z.
Proof. reflexivity. Qed.

Lemma tiles_iff g tol x1 y1 x2 y2 ix iy : gs_ok g ->
  (In (ix, iy) (tiles g tol (x1, y1, x2, y2)) <->
   axis_hit (g_xbin g) tol x1 x2 ix /\ axis_hit (g_ybin g) tol y1 y2 iy).
Proof.
  intros (Hx & Hy & _). unfold tiles. rewrite idx_bounds_spec.
  rewrite product_In, !zrange_In.
  rewrite (axis_hit_iff _ tol x1 x2 ix Hx), (axis_hit_iff _ tol y1 y2 iy Hy). reflexivity.
Qed.

Lemma tiles_NoDup g tol bnd : NoDup (tiles g tol bnd).
Proof.
  unfold tiles. destruct (idx_bounds g tol bnd) as [[[a b] c] d].
  generalize (zrange_NoDup b d). generalize (zrange b d) as ys.
  induction ys as [|y ys IH]; intros Hnd; simpl; [constructor|].
  inversion Hnd as [|? ? Hy Hys]; subst.
  apply NoDup_app_intro.
  - apply Injective_map_NoDup; [|apply zrange_NoDup]. intros u v E. inversion E. reflexivity.
  - apply IH. exact Hys.
  - intros [u v] H1 H2. apply in_map_iff in H1. destruct H1 as (w & E & _). inversion E; subst.
    apply product_In in H2. destruct H2 as [_ H2]. contradiction.
Qed.

(** ** from_sample_tile *)
Lemma bin_from_sample_spec idx x0 x1 d : x0 < x1 -> (d = 1%Z \/ d = (-1)%Z) ->
  bin_from_sample idx x0 x1 d = Ok (mkBin (x1 - x0) (x0 - (x1 - x0) * inject_Z idx * inject_Z d) d).
Proof.
  intros Hlt Hd. unfold bin_from_sample.
  apply Qlt_bool_true in Hlt as Hb. rewrite Hb. simpl.
  apply bin_new_succeeds; [lra | exact Hd].
Qed.

Lemma getitem_congr sz o sz' o' d i : sz' == sz -> o' == o ->
  fst (bin_getitem (mkBin sz' o' d) i) == fst (bin_getitem (mkBin sz o d) i) /\
  snd (bin_getitem (mkBin sz' o' d) i) == snd (bin_getitem (mkBin sz o d) i).
Proof.
  intros E1 E2. unfold bin_getitem; simpl. rewrite E1, E2. split; reflexivity.
Qed.

Lemma dir_sq d : (d = 1%Z \/ d = (-1)%Z) -> inject_Z d * inject_Z d == 1.
Proof. intros [-> | ->]; reflexivity. Qed.

(** rebuilding one axis from bin [j] of [b] gives back size and origin *)
Lemma resample_axis b j : bin_ok b ->
  let x0 := fst (bin_getitem b j) in let x1 := snd (bin_getitem b j) in
  x0 < x1 /\ x1 - x0 == b_sz b /\
  x0 - (x1 - x0) * inject_Z j * inject_Z (b_dir b) == b_origin b.
Proof.
  intros [Hs Hd]. cbv zeta. unfold bin_getitem; simpl.
  repeat split; lra.
Qed.

Lemma from_sample_tile_spec g jx jy fx fy : gs_ok g ->
  b_dir (g_xbin g) = flipdir fx -> b_dir (g_ybin g) = flipdir fy ->
  exists g',
    from_sample_tile (fst (tile_x g jx), fst (tile_y g jy), snd (tile_x g jx), snd (tile_y g jy))
                     (g_ny g) (g_nx g) jx jy fx fy = Ok g' /\
    gs_ok g' /\ g_ny g' = g_ny g /\ g_nx g' = g_nx g /\
    b_dir (g_xbin g') = b_dir (g_xbin g) /\ b_dir (g_ybin g') = b_dir (g_ybin g) /\
    (forall i, fst (tile_x g' i) == fst (tile_x g i) /\ snd (tile_x g' i) == snd (tile_x g i)) /\
    (forall i, fst (tile_y g' i) == fst (tile_y g i) /\ snd (tile_y g' i) == snd (tile_y g i)).
Proof.
  intros Hg Dx Dy. pose proof Hg as (Hx & Hy & Hnx & Hny & Hrx & Hry & Esx & Esy).
  unfold from_sample_tile, tile_x, tile_y.
  assert (N1 : ((g_ny g =? -1) && (g_nx g =? -1))%Z = false).
  { apply andb_false_iff. left. apply Z.eqb_neq. lia. }
  rewrite N1.
  destruct (resample_axis _ jx Hx) as (Lx & Wx & Ox). cbv zeta in Lx, Wx, Ox.
  destruct (resample_axis _ jy Hy) as (Ly & Wy & Oy). cbv zeta in Ly, Wy, Oy.
  set (x0 := fst (bin_getitem (g_xbin g) jx)) in *. set (x1 := snd (bin_getitem (g_xbin g) jx)) in *.
  set (y0 := fst (bin_getitem (g_ybin g) jy)) in *. set (y1 := snd (bin_getitem (g_ybin g) jy)) in *.
  rewrite (bin_from_sample_spec jx _ _ (flipdir fx) Lx (flipdir_ok fx)). cbn [bind].
  rewrite (bin_from_sample_spec jy _ _ (flipdir fy) Ly (flipdir_ok fy)). cbn [bind].
  assert (N2 : ((g_ny g =? 0) || (g_nx g =? 0))%Z = false).
  { apply orb_false_iff. split; apply Z.eqb_neq; lia. }
  rewrite N2. cbn [b_sz b_origin].
  assert (Pnx : 0 < inject_Z (g_nx g)) by (change 0 with (inject_Z 0); rewrite <- Zlt_Qlt; lia).
  assert (Pny : 0 < inject_Z (g_ny g)) by (change 0 with (inject_Z 0); rewrite <- Zlt_Qlt; lia).
  assert (Rx : 0 < (x1 - x0) / inject_Z (g_nx g)) by (apply Qlt_shift_div_l; lra).
  assert (Ry : - (y1 - y0) / inject_Z (g_ny g) < 0).
  { apply Qlt_shift_div_r; lra. }
  destruct (gs_new_succeeds (g_ny g) (g_nx g) (- (y1 - y0) / inject_Z (g_ny g))
              ((x1 - x0) / inject_Z (g_nx g))
              (x0 - (x1 - x0) * inject_Z jx * inject_Z (flipdir fx))
              (y0 - (y1 - y0) * inject_Z jy * inject_Z (flipdir fy)) fx fy)
    as (g' & E & Hg' & F1 & F2 & F3 & F4 & F5 & F6); try lia; try lra.
  exists g'. split; [exact E|]. split; [exact Hg'|]. split; [exact F1|]. split; [exact F2|].
  rewrite F5, F6. simpl b_dir. split; [congruence|]. split; [congruence|].
  assert (Sx : inject_Z (g_nx g) * Qabs ((x1 - x0) / inject_Z (g_nx g)) == b_sz (g_xbin g)).
  { rewrite Qabs_pos by lra. rewrite <- Wx. field. lra. }
  assert (Sy : inject_Z (g_ny g) * Qabs (- (y1 - y0) / inject_Z (g_ny g)) == b_sz (g_ybin g)).
  { rewrite Qabs_neg by lra. rewrite <- Wy. field. lra. }
  rewrite <- Dx in *. rewrite <- Dy in *.
  split; intros i.
  - destruct (g_xbin g) as [sz o d]. simpl in *. apply getitem_congr; assumption.
  - destruct (g_ybin g) as [sz o d]. simpl in *. apply getitem_congr; assumption.
Qed.

(** ** web_tiles *)
Lemma pow2_shift z : (0 <= z)%Z -> Qpower 2 (1 - z) == 2 / inject_Z (2 ^ z).
Proof.
  intros Hz. replace (1 - z)%Z with (1 + - z)%Z by lia.
  rewrite Qpower_plus by (intros C; discriminate C).
  rewrite Qpower_opp. rewrite (Zpower_Qpower 2 z Hz).
  change (inject_Z 2) with 2. change (2 ^ 1) with 2. reflexivity.
Qed.

Lemma pow2_pos z : (0 <= z)%Z -> 0 < inject_Z (2 ^ z).
Proof.
  intros Hz. change 0 with (inject_Z 0). rewrite <- Zlt_Qlt. apply Z.pow_pos_nonneg; lia.
Qed.

Lemma web_tiles_spec h z npix : 0 < h -> (0 <= z)%Z -> (1 <= npix)%Z ->
  exists g, web_tiles h z npix = Ok g /\ gs_ok g /\ g_ny g = npix /\ g_nx g = npix /\
    let tsz := 2 * h / inject_Z (2 ^ z) in
    tsz * inject_Z (2 ^ z) == 2 * h /\
    (forall i, fst (tile_x g i) == - h + inject_Z i * tsz /\
               snd (tile_x g i) == - h + (inject_Z i + 1) * tsz) /\
    (forall j, fst (tile_y g j) == h - (inject_Z j + 1) * tsz /\
               snd (tile_y g j) == h - inject_Z j * tsz).
Proof.
  intros Hh Hz Hn. unfold web_tiles.
  pose proof (pow2_pos z Hz) as Pp.
  assert (T : h * Qpower 2 (1 - z) == 2 * h / inject_Z (2 ^ z)).
  { rewrite pow2_shift by exact Hz. field. lra. }
  set (t := h * Qpower 2 (1 - z)) in *.
  assert (Tp : 0 < t).
  { rewrite T. apply Qlt_shift_div_l; lra. }
  destruct (qmin_spec (- h) (- h + t)) as [[_ ->] | [C _]]; [|lra].
  destruct (qmax_spec (- h) (- h + t)) as [[_ ->] | [C _]]; [|lra].
  destruct (qmin_spec (h - t) h) as [[_ ->] | [C _]]; [|lra].
  destruct (qmax_spec (h - t) h) as [[_ ->] | [C _]]; [|lra].
  unfold from_sample_tile.
  assert (N1 : ((npix =? -1) && (npix =? -1))%Z = false).
  { apply andb_false_iff. left. apply Z.eqb_neq. lia. }
  rewrite N1.
  rewrite (bin_from_sample_spec 0 (- h) (- h + t) (flipdir false)) by (simpl; auto; lra). cbn [bind].
  rewrite (bin_from_sample_spec 0 (h - t) h (flipdir true)) by (simpl; auto; lra). cbn [bind].
  assert (N2 : ((npix =? 0) || (npix =? 0))%Z = false).
  { apply orb_false_iff. split; apply Z.eqb_neq; lia. }
  rewrite N2. cbn [b_sz b_origin].
  assert (Pn : 0 < inject_Z npix) by (change 0 with (inject_Z 0); rewrite <- Zlt_Qlt; lia).
  assert (Rx : 0 < (- h + t - - h) / inject_Z npix) by (apply Qlt_shift_div_l; lra).
  assert (Ry : - (h - (h - t)) / inject_Z npix < 0) by (apply Qlt_shift_div_r; lra).
  destruct (gs_new_succeeds npix npix (- (h - (h - t)) / inject_Z npix) ((- h + t - - h) / inject_Z npix)
              (- h - (- h + t - - h) * inject_Z 0 * inject_Z (flipdir false))
              (h - t - (h - (h - t)) * inject_Z 0 * inject_Z (flipdir true)) false true)
    as (g & E & Hg & F1 & F2 & F3 & F4 & F5 & F6); try lia; try lra.
  exists g. split; [exact E|]. split; [exact Hg|]. split; [exact F1|]. split; [exact F2|].
  cbv zeta. split; [field; lra|].
  unfold tile_x, tile_y. rewrite F5, F6.
  assert (Sx : inject_Z npix * Qabs ((- h + t - - h) / inject_Z npix) == t).
  { rewrite Qabs_pos by lra. field. lra. }
  assert (Sy : inject_Z npix * Qabs (- (h - (h - t)) / inject_Z npix) == t).
  { rewrite Qabs_neg by lra. field. lra. }
  unfold bin_getitem; cbn [b_sz b_origin b_dir fst snd flipdir].
  change (inject_Z 0) with 0. change (inject_Z 1) with 1. change (inject_Z (-1)) with (-(1)).
  split; intros i; rewrite <- T.
  - rewrite Sx. split; ring.
  - rewrite Sy. split; ring.
Qed.

(** with [2^z] tiles per side the grid covers [-h,h) x [-h,h) with indices 0..2^z-1 *)
Lemma web_tiles_index_range h z npix g x : 0 < h -> (0 <= z)%Z -> (1 <= npix)%Z ->
  web_tiles h z npix = Ok g -> - h <= x -> x < h ->
  (0 <= fst (pt2idx g x x) < 2 ^ z)%Z /\ (0 <= snd (pt2idx g x x) < 2 ^ z)%Z.
Proof.
  intros Hh Hz Hn E Hx1 Hx2.
  destruct (web_tiles_spec h z npix Hh Hz Hn) as (g0 & E0 & Hg & _ & _ & Ht & Tx & Ty).
  rewrite E in E0. inversion E0; subst g0. clear E0.
  pose proof (pow2_pos z Hz) as Pp. cbv zeta in Ht, Tx, Ty.
  set (t := 2 * h / inject_Z (2 ^ z)) in *.
  assert (Tp : 0 < t) by (apply Qlt_shift_div_l; lra).
  destruct (pt2idx g x x) as [ix iy] eqn:Ep. apply pt2idx_iff in Ep; [|exact Hg].
  destruct Ep as [[X1 X2] [Y1 Y2]]. simpl.
  destruct (Tx ix) as [A1 A2]. destruct (Ty iy) as [B1 B2].
  rewrite A1 in X1. rewrite A2 in X2. rewrite B1 in Y1. rewrite B2 in Y2.
  set (P := inject_Z (2 ^ z)) in *.
  assert (HP : forall k : Z, (0 <= k < 2 ^ z)%Z <-> (0 < inject_Z k + 1 /\ inject_Z k < P)).
  { intros k. unfold P. rewrite <- Zlt_Qlt.
    assert (E1 : inject_Z k + 1 == inject_Z (k + 1)) by (rewrite inject_Z_plus; reflexivity).
    rewrite E1. change 0 with (inject_Z 0). rewrite <- Zlt_Qlt. lia. }
  split; apply HP.
  - set (u := inject_Z ix) in *. split.
    + assert (0 < (u + 1) * t) by lra.
      destruct (Qlt_le_dec 0 (u + 1)) as [L|L]; [exact L|].
      assert ((u + 1) * t <= 0 * t) by (apply Qmult_le_compat_r; lra). lra.
    + assert (u * t < P * t) by lra.
      apply Qmult_lt_r in H; assumption.
  - set (u := inject_Z iy) in *. split.
    + assert (0 < (u + 1) * t) by lra.
      destruct (Qlt_le_dec 0 (u + 1)) as [L|L]; [exact L|].
      assert ((u + 1) * t <= 0 * t) by (apply Qmult_le_compat_r; lra). lra.
    + assert (u * t < P * t) by lra.
      apply Qmult_lt_r in H; assumption.
Qed.

(** ** every successfully constructed grid is well formed *)
Lemma prod_pos_inv (n : Z) (r : Q) : 0 < inject_Z n * Qabs r -> (0 < n)%Z /\ ~ r == 0.
Proof.
  intros H. split.
  - destruct (Z_lt_le_dec 0 n) as [L|L]; [exact L|].
    assert (inject_Z n <= 0) by (change 0 with (inject_Z 0); rewrite <- Zle_Qle; exact L).
    pose proof (Qabs_nonneg r).
    assert (inject_Z n * Qabs r <= 0 * Qabs r) by (apply Qmult_le_compat_r; assumption). lra.
  - intros E. rewrite E in H. change (Qabs 0) with 0 in H. lra.
Qed.

Lemma gs_new_ok ny nx ry rx ox oy fx fy g :
  gs_new ny nx ry rx ox oy fx fy = Ok g ->
  gs_ok g /\ g_ny g = ny /\ g_nx g = nx /\ g_ry g = ry /\ g_rx g = rx /\
  g_xbin g = mkBin (inject_Z nx * Qabs rx) ox (flipdir fx) /\
  g_ybin g = mkBin (inject_Z ny * Qabs ry) oy (flipdir fy).
Proof.
  intros E. pose proof (gs_new_ok_inv _ _ _ _ _ _ _ _ _ E) as [Px Py].
  apply prod_pos_inv in Px. apply prod_pos_inv in Py.
  destruct Px as [Px Rx]. destruct Py as [Py Ry].
  destruct (gs_new_succeeds ny nx ry rx ox oy fx fy) as (g' & E' & H); try lia; try assumption.
  rewrite E in E'. inversion E'; subst g'. exact H.
Qed.

Lemma gs_new_domain ny nx ry rx ox oy fx fy :
  (exists g, gs_new ny nx ry rx ox oy fx fy = Ok g) <->
  ((1 <= ny)%Z /\ (1 <= nx)%Z /\ ~ ry == 0 /\ ~ rx == 0).
Proof.
  split.
  - intros [g E]. pose proof (gs_new_ok_inv _ _ _ _ _ _ _ _ _ E) as [Px Py].
    apply prod_pos_inv in Px. apply prod_pos_inv in Py. intuition lia.
  - intros (A & B & C & D).
    destruct (gs_new_succeeds ny nx ry rx ox oy fx fy A B C D) as (g & E & _). eauto.
Qed.

(** outside the domain construction raises AssertionError *)
Lemma gs_new_error ny nx ry rx ox oy fx fy :
  ~ ((1 <= ny)%Z /\ (1 <= nx)%Z /\ ~ ry == 0 /\ ~ rx == 0) ->
  exists l, gs_new ny nx ry rx ox oy fx fy = Err (EAssert l).
Proof.
  intros H. destruct (gs_new ny nx ry rx ox oy fx fy) as [g|e] eqn:E.
  - exfalso. apply H. apply (proj1 (gs_new_domain ny nx ry rx ox oy fx fy)). eauto.
  - unfold gs_new, bin_new in E.
    rewrite !(proj2 (orb_true_iff _ _)) in E
      by (destruct fx, fy; simpl; auto).
    simpl in E.
    destruct (Qlt_bool 0 (inject_Z ny * Qabs ry)); simpl in E.
    + destruct (Qlt_bool 0 (inject_Z nx * Qabs rx)); simpl in E; inversion E; eauto.
    + inversion E; eauto.
Qed.

(** ** statement forms used by Props/C14.v *)
Lemma P_bin_domain sz o d :
  (exists b, bin_new sz o d = Ok b) <-> (0 < sz /\ (d = 1%Z \/ d = (-1)%Z)).
Proof.
  split.
  - intros [b E]. apply bin_new_ok in E. destruct E as [[H1 H2] ->]. simpl in *. auto.
  - intros [H1 H2]. eexists. apply bin_new_succeeds; assumption.
Qed.

Lemma P_bin_lookup sz o d b x i : bin_new sz o d = Ok b ->
  (bin_bin b x = i <-> fst (bin_getitem b i) <= x /\ x < snd (bin_getitem b i)).
Proof. intros E. apply bin_iff. apply (bin_new_ok _ _ _ _ E). Qed.

Lemma P_bin_neighbours sz o d b i : bin_new sz o d = Ok b ->
  snd (bin_getitem b i) == fst (bin_getitem b i) + sz /\
  (d = 1%Z -> snd (bin_getitem b i) == fst (bin_getitem b (i + 1))) /\
  (d = (-1)%Z -> fst (bin_getitem b i) == snd (bin_getitem b (i + 1))).
Proof.
  intros E. destruct (bin_new_ok _ _ _ _ E) as [Hb ->].
  split; [apply interval_width|]. apply (consecutive_share_endpoint _ i Hb).
Qed.

Lemma P_bin_disjoint sz o d b i j : bin_new sz o d = Ok b -> i <> j ->
  snd (bin_getitem b i) <= fst (bin_getitem b j) \/ snd (bin_getitem b j) <= fst (bin_getitem b i).
Proof. intros E. apply distinct_disjoint. apply (bin_new_ok _ _ _ _ E). Qed.

Section Grid.
  Variables (ny nx : Z) (ry rx ox oy : Q) (fx fy : bool) (g : gridspec).
  Hypothesis E : gs_new ny nx ry rx ox oy fx fy = Ok g.

  Let Hg : gs_ok g := proj1 (gs_new_ok _ _ _ _ _ _ _ _ _ E).

  Lemma P_grid_fields :
    g_ny g = ny /\ g_nx g = nx /\ g_ry g = ry /\ g_rx g = rx /\
    g_xbin g = mkBin (inject_Z nx * Qabs rx) ox (flipdir fx) /\
    g_ybin g = mkBin (inject_Z ny * Qabs ry) oy (flipdir fy).
  Proof. apply (gs_new_ok _ _ _ _ _ _ _ _ _ E). Qed.

  Lemma P_pt2idx x y ix iy :
    pt2idx g x y = (ix, iy) <->
    (fst (tile_x g ix) <= x /\ x < snd (tile_x g ix)) /\
    (fst (tile_y g iy) <= y /\ y < snd (tile_y g iy)).
  Proof. apply pt2idx_iff. exact Hg. Qed.

  Lemma P_interiors_disjoint ix iy jx jy x y : (ix, iy) <> (jx, jy) ->
    fst (tile_x g ix) < x < snd (tile_x g ix) -> fst (tile_y g iy) < y < snd (tile_y g iy) ->
    fst (tile_x g jx) < x < snd (tile_x g jx) -> fst (tile_y g jy) < y < snd (tile_y g jy) ->
    False.
  Proof. apply tiles_interiors_disjoint. exact Hg. Qed.

  Lemma P_axis_separated ix jx iy jy :
    (ix <> jx -> snd (tile_x g ix) <= fst (tile_x g jx) \/ snd (tile_x g jx) <= fst (tile_x g ix)) /\
    (iy <> jy -> snd (tile_y g iy) <= fst (tile_y g jy) \/ snd (tile_y g jy) <= fst (tile_y g iy)).
  Proof.
    destruct Hg as (Hx & Hy & _). split; intros H; apply distinct_disjoint; assumption.
  Qed.

  Lemma P_neighbours ix iy :
    snd (tile_x g ix) == fst (tile_x g ix) + inject_Z nx * Qabs rx /\
    snd (tile_y g iy) == fst (tile_y g iy) + inject_Z ny * Qabs ry /\
    (fx = false -> snd (tile_x g ix) == fst (tile_x g (ix + 1))) /\
    (fx = true -> fst (tile_x g ix) == snd (tile_x g (ix + 1))) /\
    (fy = false -> snd (tile_y g iy) == fst (tile_y g (iy + 1))) /\
    (fy = true -> fst (tile_y g iy) == snd (tile_y g (iy + 1))).
  Proof.
    destruct P_grid_fields as (_ & _ & _ & _ & Fx & Fy).
    destruct Hg as (Hx & Hy & _). unfold tile_x, tile_y.
    pose proof (consecutive_share_endpoint _ ix Hx) as [X1 X2].
    pose proof (consecutive_share_endpoint _ iy Hy) as [Y1 Y2].
    pose proof (interval_width (g_xbin g) ix) as Wx. pose proof (interval_width (g_ybin g) iy) as Wy.
    rewrite Fx in *. rewrite Fy in *. simpl b_dir in *. simpl b_sz in *.
    split; [exact Wx|]. split; [exact Wy|].
    repeat split; intros ->; simpl in *; auto.
  Qed.

  Lemma P_tile_geobox ix iy :
    let b := tile_geobox g (ix, iy) in
    gb_ny b = ny /\ gb_nx b = nx /\ gb_sx b = rx /\ gb_sy b = ry /\
    fst (fst (fst (gbox_bbox b))) == fst (tile_x g ix) /\
    snd (fst (fst (gbox_bbox b))) == fst (tile_y g iy) /\
    snd (fst (gbox_bbox b)) == snd (tile_x g ix) /\
    snd (gbox_bbox b) == snd (tile_y g iy).
  Proof.
    destruct P_grid_fields as (F1 & F2 & F3 & F4 & _).
    pose proof (tile_geobox_spec g ix iy Hg) as H. cbv zeta in *.
    rewrite F1, F2, F3, F4 in H. exact H.
  Qed.

  Lemma P_tiles tol x1 y1 x2 y2 ix iy :
    In (ix, iy) (tiles g tol (x1, y1, x2, y2)) <->
    ((x1 + tol <= x2 - tol /\ fst (tile_x g ix) <= x2 - tol /\ x1 + tol < snd (tile_x g ix)) \/
     (x2 - tol < x1 + tol /\ fst (tile_x g ix) <= x1 + tol /\ x2 - tol < snd (tile_x g ix))) /\
    ((y1 + tol <= y2 - tol /\ fst (tile_y g iy) <= y2 - tol /\ y1 + tol < snd (tile_y g iy)) \/
     (y2 - tol < y1 + tol /\ fst (tile_y g iy) <= y1 + tol /\ y2 - tol < snd (tile_y g iy))).
  Proof. apply (tiles_iff g tol x1 y1 x2 y2 ix iy Hg). Qed.

  Lemma P_tiles_wide tol x1 y1 x2 y2 ix iy : x1 + tol <= x2 - tol -> y1 + tol <= y2 - tol ->
    (In (ix, iy) (tiles g tol (x1, y1, x2, y2)) <->
     (fst (tile_x g ix) <= x2 - tol /\ x1 + tol < snd (tile_x g ix)) /\
     (fst (tile_y g iy) <= y2 - tol /\ y1 + tol < snd (tile_y g iy))).
  Proof.
    intros Wx Wy. rewrite P_tiles. split.
    - intros [[(_ & A & B) | (C & _)] [(_ & A' & B') | (C' & _)]]; try lra; auto.
    - intros [[A B] [A' B']]. split; left; auto.
  Qed.

  Lemma P_tiles_overlap_included tol x1 y1 x2 y2 ix iy :
    tol < snd (tile_x g ix) - x1 -> tol < x2 - fst (tile_x g ix) ->
    tol < snd (tile_y g iy) - y1 -> tol < y2 - fst (tile_y g iy) ->
    In (ix, iy) (tiles g tol (x1, y1, x2, y2)).
  Proof.
    intros A B C D. rewrite P_tiles. split.
    - destruct (Qlt_le_dec (x2 - tol) (x1 + tol)); [right | left]; repeat split; lra.
    - destruct (Qlt_le_dec (y2 - tol) (y1 + tol)); [right | left]; repeat split; lra.
  Qed.

  Lemma P_from_sample_tile jx jy :
    exists g',
      from_sample_tile (fst (tile_x g jx), fst (tile_y g jy), snd (tile_x g jx), snd (tile_y g jy))
                       ny nx jx jy fx fy = Ok g' /\
      g_ny g' = ny /\ g_nx g' = nx /\
      (forall i, fst (tile_x g' i) == fst (tile_x g i) /\ snd (tile_x g' i) == snd (tile_x g i)) /\
      (forall i, fst (tile_y g' i) == fst (tile_y g i) /\ snd (tile_y g' i) == snd (tile_y g i)) /\
      (forall x y, pt2idx g' x y = pt2idx g x y).
  Proof.
    destruct P_grid_fields as (F1 & F2 & _ & _ & Fx & Fy).
    destruct (from_sample_tile_spec g jx jy fx fy Hg) as (g' & E' & Hg' & G1 & G2 & _ & _ & Tx & Ty).
    { rewrite Fx. reflexivity. } { rewrite Fy. reflexivity. }
    exists g'. rewrite F1, F2 in *. repeat split; try assumption; try apply Tx; try apply Ty.
    intros x y. destruct (pt2idx g x y) as [ix iy] eqn:Ep.
    apply (pt2idx_iff g' x y ix iy Hg'). apply (pt2idx_iff g x y ix iy Hg) in Ep.
    destruct (Tx ix) as [A1 A2]. destruct (Ty iy) as [B1 B2]. rewrite A1, A2, B1, B2. exact Ep.
  Qed.
End Grid.

Lemma P_polygon {P : Type} (bbox_of : P -> Q * Q * Q * Q) (disjoint : P -> gbox -> bool) g tol p idx :
  In idx (tiles_from_geopolygon bbox_of disjoint g tol p) <->
  In idx (tiles g tol (bbox_of p)) /\ disjoint p (tile_geobox g idx) = false.
Proof.
  unfold tiles_from_geopolygon. rewrite filter_In, negb_true_iff. reflexivity.
Qed.

Lemma P_web_tiles h z npix : 0 < h -> (0 <= z)%Z -> (1 <= npix)%Z ->
  exists g, web_tiles h z npix = Ok g /\ g_ny g = npix /\ g_nx g = npix /\
    let tsz := 2 * h / inject_Z (2 ^ z) in
    tsz * inject_Z (2 ^ z) == 2 * h /\
    (forall i, fst (tile_x g i) == - h + inject_Z i * tsz /\
               snd (tile_x g i) == - h + (inject_Z i + 1) * tsz) /\
    (forall j, fst (tile_y g j) == h - (inject_Z j + 1) * tsz /\
               snd (tile_y g j) == h - inject_Z j * tsz) /\
    (forall x y, - h <= x < h -> - h <= y < h ->
                 (0 <= fst (pt2idx g x y) < 2 ^ z)%Z /\ (0 <= snd (pt2idx g x y) < 2 ^ z)%Z).
Proof.
  intros Hh Hz Hn.
  destruct (web_tiles_spec h z npix Hh Hz Hn) as (g & E & Hg & F1 & F2 & T & Tx & Ty).
  exists g. split; [exact E|]. split; [exact F1|]. split; [exact F2|]. cbv zeta.
  split; [exact T|]. split; [exact Tx|]. split; [exact Ty|].
  intros x y Hx Hy.
  pose proof (web_tiles_index_range h z npix g x Hh Hz Hn E (proj1 Hx) (proj2 Hx)) as [A _].
  pose proof (web_tiles_index_range h z npix g y Hh Hz Hn E (proj1 Hy) (proj2 Hy)) as [_ B].
  unfold pt2idx in *. simpl in *. auto.
Qed.
