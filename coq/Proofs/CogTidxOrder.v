(** [CogMeta.tidx()] lists the tiles in flat-index order:
    [map (flat_tile_idx m) (tidx m) = map Ok [0; 1; ...; num_tiles m - 1]] as a
    list equation (the C05 file previously had only bijection + NoDup +
    membership).  This is what lets the dask writer use the position of a tile
    in the [tidx] stream as its slot in TileOffsets/TileByteCounts. *)
From Coq Require Import ZArith List Bool Lia.
From OG Require Import Base.Result Model.CogLayout.
Import ListNotations.
Open Scope Z_scope.

Lemma czrange_0 : CogLayout.zrange 0 = [].
Proof. reflexivity. Qed.

Lemma czrange_succ n : 0 <= n -> CogLayout.zrange (n + 1) = CogLayout.zrange n ++ [n].
Proof.
  intros Hn. unfold CogLayout.zrange.
  replace (Z.to_nat (n + 1)) with (S (Z.to_nat n)) by lia.
  rewrite seq_S, map_app. cbn [map Nat.add]. rewrite Z2Nat.id by lia. reflexivity.
Qed.

Lemma czrange_In n i : In i (CogLayout.zrange n) -> 0 <= i < n.
Proof.
  unfold CogLayout.zrange. rewrite in_map_iff. intros (k & <- & Hk).
  apply in_seq in Hk. lia.
Qed.

Lemma czrange_app a b : 0 <= a -> 0 <= b ->
  CogLayout.zrange (a + b) = CogLayout.zrange a ++ map (fun j => a + j) (CogLayout.zrange b).
Proof.
  intros Ha Hb. revert b Hb.
  apply (natlike_ind (fun b => CogLayout.zrange (a + b) =
            CogLayout.zrange a ++ map (fun j => a + j) (CogLayout.zrange b))).
  - rewrite Z.add_0_r, czrange_0. cbn [map]. now rewrite app_nil_r.
  - intros b Hb IH. unfold Z.succ.
    rewrite Z.add_assoc, czrange_succ by lia. rewrite IH.
    rewrite (czrange_succ b) by lia. rewrite map_app, app_assoc. reflexivity.
Qed.

Lemma map_flat_map {A B C} (f : B -> C) (g : A -> list B) l :
  map f (flat_map g l) = flat_map (fun x => map f (g x)) l.
Proof.
  induction l as [|x l IH]; cbn [flat_map map]; [reflexivity|].
  now rewrite map_app, IH.
Qed.

Lemma flat_map_ext_in {A B} (f g : A -> list B) l :
  (forall x, In x l -> f x = g x) -> flat_map f l = flat_map g l.
Proof.
  induction l as [|x l IH]; cbn [flat_map]; intros H; [reflexivity|].
  rewrite H by (left; reflexivity). rewrite IH; [reflexivity|].
  intros y Hy. apply H. now right.
Qed.

(** row-major enumeration of an [a x b] grid is [0 .. a*b) in order *)
Lemma czrange_grid a b : 0 <= a -> 0 <= b ->
  flat_map (fun i => map (fun j => i * b + j) (CogLayout.zrange b)) (CogLayout.zrange a)
  = CogLayout.zrange (a * b).
Proof.
  intros Ha Hb. revert a Ha.
  apply (natlike_ind (fun a =>
     flat_map (fun i => map (fun j => i * b + j) (CogLayout.zrange b)) (CogLayout.zrange a)
     = CogLayout.zrange (a * b))).
  - reflexivity.
  - intros a Ha IH. unfold Z.succ.
    rewrite czrange_succ by lia. rewrite flat_map_app, IH.
    cbn [flat_map]. rewrite app_nil_r.
    replace ((a + 1) * b) with (a * b + b) by ring.
    rewrite czrange_app by nia. reflexivity.
Qed.

Definition wf_counts (m : meta) : Prop :=
  0 <= num_planes m /\ 0 <= fst (chunked m) /\ 0 <= snd (chunked m).

Lemma tidx_flat_order m : wf_counts m ->
  map (flat_tile_idx m) (tidx m) = map (@Ok Z) (CogLayout.zrange (num_tiles m)).
Proof.
  intros (Hs & Hy & Hx).
  unfold tidx, tidx_plane, num_tiles.
  destruct (chunked m) as [ny nx] eqn:Ec. cbn [fst snd] in Hy, Hx.
  replace (num_planes m * ny * nx) with (num_planes m * (ny * nx)) by ring.
  rewrite <- (czrange_grid (num_planes m) (ny * nx)) by nia.
  rewrite !map_flat_map. apply flat_map_ext_in. intros s Hs'.
  apply czrange_In in Hs'.
  rewrite <- (czrange_grid ny nx) by lia.
  rewrite !map_flat_map. apply flat_map_ext_in. intros y Hy'.
  apply czrange_In in Hy'.
  rewrite !map_map. apply map_ext_in. intros x Hx'.
  apply czrange_In in Hx'.
  unfold flat_tile_idx. rewrite Ec.
  destruct (s <? 0) eqn:?; [lia|]. destruct (s >=? num_planes m) eqn:?; [lia|].
  destruct (y <? 0) eqn:?; [lia|]. destruct (y >=? ny) eqn:?; [lia|].
  destruct (x <? 0) eqn:?; [lia|]. destruct (x >=? nx) eqn:?; [lia|].
  cbn [orb]. f_equal. ring.
Qed.

(** the hypothesis is met by every meta with positive tiles and a non-negative
    shape / sample count (what _make_empty_cog builds) *)
Lemma wf_counts_of_pos m :
  0 <= m_nsamples m -> 0 <= fst (m_shape m) -> 0 <= snd (m_shape m) ->
  0 < fst (m_tile m) -> 0 < snd (m_tile m) -> wf_counts m.
Proof.
  intros Hn Hh Hw Hth Htw. unfold wf_counts, num_planes, chunked.
  destruct (m_shape m) as [H W], (m_tile m) as [th tw]. cbn [fst snd] in *.
  repeat split.
  - destruct (m_axis m); lia.
  - apply Z.div_pos; lia.
  - apply Z.div_pos; lia.
Qed.

Example tidx_flat_order_witness :
  let m := Meta SYX (5, 7) (2, 3) 2 in
  wf_counts m /\ num_tiles m = 18 /\
  map (flat_tile_idx m) (tidx m) = map (@Ok Z) (CogLayout.zrange 18).
Proof. cbv zeta. split; [unfold wf_counts; cbn; lia|]. split; vm_compute; reflexivity. Qed.

(** per-plane stream ([CogMeta.tidx(sample_idx=s)], what the dask writer iterates for one
    band of a SYX cube): plane [s] occupies the contiguous flat slots
    [s*ny*nx .. (s+1)*ny*nx) in order *)
Lemma tidx_plane_flat_order m s : wf_counts m -> 0 <= s < num_planes m ->
  map (flat_tile_idx m) (tidx_plane m s) =
  map (fun j => Ok (s * (fst (chunked m) * snd (chunked m)) + j))
      (CogLayout.zrange (fst (chunked m) * snd (chunked m))).
Proof.
  intros (Hs & Hy & Hx) Hs'.
  unfold tidx_plane.
  destruct (chunked m) as [ny nx] eqn:Ec. cbn [fst snd] in *.
  rewrite <- (czrange_grid ny nx) by lia.
  rewrite !map_flat_map. apply flat_map_ext_in. intros y Hy'.
  apply czrange_In in Hy'.
  rewrite !map_map. apply map_ext_in. intros x Hx'.
  apply czrange_In in Hx'.
  unfold flat_tile_idx. rewrite Ec.
  destruct (s <? 0) eqn:?; [lia|]. destruct (s >=? num_planes m) eqn:?; [lia|].
  destruct (y <? 0) eqn:?; [lia|]. destruct (y >=? ny) eqn:?; [lia|].
  destruct (x <? 0) eqn:?; [lia|]. destruct (x >=? nx) eqn:?; [lia|].
  cbn [orb]. f_equal. ring.
Qed.
