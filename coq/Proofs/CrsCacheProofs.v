(** Proofs about Model/CrsCache.v: the state invariant (everything the caches
    and the user reference is alive, transformer-cache ids are pinned by
    [_crs_cache]), its preservation by every operation, and the theorems on
    transformers, history (in)dependence and lossless-equivalent specs. *)
From Coq Require Import ZArith List Bool Lia.
From OG Require Import Base.Result Model.CrsCache.
Import ListNotations.
Open Scope Z_scope.

Lemma bind_ok' {A B} (r : res A) (f : A -> res B) b :
  bind r f = Ok b -> exists a, r = Ok a /\ f a = Ok b.
Proof. destruct r; simpl; intros H; [eauto | discriminate]. Qed.

Ltac inv_ok H := apply bind_ok' in H; destruct H as (? & ? & H).

(** * generic list facts *)
Lemma existsb_eqb_In (x : Z) l : existsb (Z.eqb x) l = true <-> In x l.
Proof.
  rewrite existsb_exists; split.
  - intros (y & Hy & E). apply Z.eqb_eq in E. subst; auto.
  - intros H. exists x; split; auto. apply Z.eqb_refl.
Qed.

Lemma In_set_nth {A} (l : list A) i x y : In y (set_nth l i x) -> y = x \/ In y l.
Proof.
  revert i; induction l as [|a r IH]; intros i H; simpl in *; [tauto|].
  destruct i; simpl in H.
  - destruct H; auto.
  - destruct H as [H|H]; auto. apply IH in H. tauto.
Qed.

Lemma nth_error_set_nth {A} (l : list A) i x y :
  nth_error l i = Some y -> nth_error (set_nth l i x) i = Some x.
Proof.
  revert i; induction l as [|a r IH]; intros [|i] H; simpl in *; try discriminate; auto.
Qed.

Lemma NoDup_map_filter {A} (f : A -> Z) (p : A -> bool) l :
  NoDup (map f l) -> NoDup (map f (filter p l)).
Proof.
  induction l as [|a r IH]; simpl; intros H; [constructor|].
  inversion H as [|? ? Hn Hr]; subst.
  destruct (p a); simpl; auto.
  constructor; auto. intros Hin. apply Hn.
  apply in_map_iff in Hin. destruct Hin as (y & E & Hy). apply filter_In in Hy.
  apply in_map_iff. exists y; tauto.
Qed.

Lemma NoDup_fst_fun {B} (l : list (Z * B)) i a b :
  NoDup (map fst l) -> In (i, a) l -> In (i, b) l -> a = b.
Proof.
  induction l as [|[j c] r IH]; simpl; intros Hn Ha Hb; [tauto|].
  inversion Hn as [|? ? Hnot Hr]; subst.
  destruct Ha as [Ha|Ha], Hb as [Hb|Hb].
  - congruence.
  - inversion Ha; subst. exfalso. apply Hnot. apply in_map_iff. exists (i, b); auto.
  - inversion Hb; subst. exfalso. apply Hnot. apply in_map_iff. exists (i, a); auto.
  - auto.
Qed.

Section Proofs.
  Variable W : oracle.

  Notation step := (step W).
  Notation run := (run W).
  Notation make_crs := (make_crs W).
  Notation crs_new := (crs_new W).
  Notation cache_get := (cache_get W).

  (** * the invariant *)
  Definition pinned (st : state) (id : Z) : Prop := exists k e, In (k, e) (cache st) /\ e_id e = id.

  Definition good_var (st : state) (v : crsv) : Prop := In (c_id v, c_srs v) (heap st) /\ pinned st (c_id v).

  Record inv (st : state) : Prop := mkInv {
    inv_nodup : NoDup (map fst (heap st));
    inv_cache : forall k e, In (k, e) (cache st) ->
                  In (e_id e, e_srs e) (heap st) /\ (forall i s, k = KObj i s -> In (i, s) (heap st));
    inv_vars : forall v, In (Some v) (vars st) -> good_var st v;
    inv_pys : forall p, In (Some p) (pys st) -> In p (heap st);
    inv_tc : forall i j xy d, In ((i, j, xy), d) (tcache st) ->
               snd d = xy /\ In (i, fst (fst d)) (heap st) /\ In (j, snd (fst d)) (heap st) /\
               pinned st i /\ pinned st j
  }.

  Lemma inv_init : inv init.
  Proof. constructor; simpl; try tauto; try constructor. Qed.

  (** * roots *)
  Lemma is_root_iff st id : is_root st id = true <-> In id (roots st).
  Proof. unfold is_root. apply existsb_eqb_In. Qed.

  Lemma root_cache st k e : In (k, e) (cache st) -> In (e_id e) (roots st).
  Proof.
    intros H. unfold roots. apply in_or_app; left. unfold cache_ids.
    apply in_flat_map. exists (k, e); split; auto. simpl; auto.
  Qed.

  Lemma root_key st i s e : In (KObj i s, e) (cache st) -> In i (roots st).
  Proof.
    intros H. unfold roots. apply in_or_app; left. unfold cache_ids.
    apply in_flat_map. exists (KObj i s, e); split; auto. simpl; auto.
  Qed.

  Lemma root_var st v : In (Some v) (vars st) -> In (c_id v) (roots st).
  Proof.
    intros H. unfold roots. apply in_or_app; right. apply in_or_app; left.
    unfold var_ids. apply in_flat_map. exists (Some v); split; simpl; auto.
  Qed.

  Lemma root_py st p : In (Some p) (pys st) -> In (fst p) (roots st).
  Proof.
    intros H. unfold roots. apply in_or_app; right. apply in_or_app; right.
    unfold py_ids. apply in_flat_map. exists (Some p); split; simpl; auto.
  Qed.

  Lemma root_pinned st id : pinned st id -> In id (roots st).
  Proof. intros (k & e & H & E). subst. eapply root_cache; eauto. Qed.

  Lemma sweep_keeps st p : In p (heap st) -> In (fst p) (roots st) -> In p (heap (sweep st)).
  Proof.
    intros H R. unfold sweep; simpl. apply filter_In; split; auto. apply is_root_iff; auto.
  Qed.

  Lemma sweep_sub st p : In p (heap (sweep st)) -> In p (heap st).
  Proof. unfold sweep; simpl. intros H. apply filter_In in H. tauto. Qed.

  Lemma inv_sweep st : inv st -> inv (sweep st).
  Proof.
    intros I. destruct I as [Hn Hc Hv Hp Ht].
    constructor.
    - unfold sweep; simpl. apply NoDup_map_filter; auto.
    - intros k e H. change (cache (sweep st)) with (cache st) in H.
      destruct (Hc k e H) as (A & B). split.
      + apply sweep_keeps; auto. simpl. eapply root_cache; eauto.
      + intros i s E. subst. apply sweep_keeps; auto. simpl. eapply root_key; eauto.
    - intros v H. change (vars (sweep st)) with (vars st) in H.
      destruct (Hv v H) as (A & B). split; auto.
      apply sweep_keeps; auto. simpl. apply root_var; auto.
    - intros p H. change (pys (sweep st)) with (pys st) in H.
      apply sweep_keeps; auto. apply root_py; auto.
    - intros i j xy d H. change (tcache (sweep st)) with (tcache st) in H.
      destruct (Ht i j xy d H) as (A & B & C & D & E).
      repeat split; auto; apply sweep_keeps; auto; simpl; apply root_pinned; auto.
  Qed.

  (** * allocation *)
  Lemma heap_has_iff h id : heap_has h id = true <-> In id (map fst h).
  Proof.
    unfold heap_has. rewrite existsb_exists. split.
    - intros (p & Hp & E). apply Z.eqb_eq in E. apply in_map_iff. exists p; auto.
    - intros H. apply in_map_iff in H. destruct H as (p & E & Hp). exists p; split; auto. apply Z.eqb_eq; auto.
  Qed.

  Lemma alloc_ok st id srs st1 :
    alloc st id srs = Ok st1 ->
    st1 = with_heap st ((id, srs) :: heap st) /\ ~ In id (map fst (heap st)).
  Proof.
    unfold alloc. destruct (heap_has (heap st) id) eqn:E; intros H; inversion H; subst.
    split; auto. intros Hin. apply heap_has_iff in Hin. congruence.
  Qed.

  (** a state extension that only adds heap cells / cache entries *)
  Definition ext (st st1 : state) : Prop :=
    (forall p, In p (heap st) -> In p (heap st1)) /\
    (forall x, In x (cache st) -> In x (cache st1)) /\
    tcache st1 = tcache st /\ vars st1 = vars st /\ pys st1 = pys st.

  Lemma ext_refl st : ext st st.
  Proof. repeat split; auto. Qed.

  Lemma ext_trans a b c : ext a b -> ext b c -> ext a c.
  Proof.
    intros (A1 & A2 & A3 & A4 & A5) (B1 & B2 & B3 & B4 & B5).
    repeat split; auto; congruence.
  Qed.

  Lemma pinned_ext st st1 id : ext st st1 -> pinned st id -> pinned st1 id.
  Proof. intros (_ & Hc & _) (k & e & H & E). exists k, e; auto. Qed.

  Lemma inv_alloc st id srs st1 : inv st -> alloc st id srs = Ok st1 -> inv st1 /\ ext st st1 /\ In (id, srs) (heap st1).
  Proof.
    intros I H. apply alloc_ok in H. destruct H as (-> & Hn).
    destruct I as [Hnd Hc Hv Hp Ht].
    split; [|split].
    - constructor; simpl.
      + constructor; auto.
      + intros k e H. destruct (Hc k e H) as (A & B). split; auto.
      + intros v H. destruct (Hv v H) as (A & B). split; simpl; auto.
      + intros p H. right; auto.
      + intros i j xy d H. destruct (Ht i j xy d H) as (A & B & C & D & E). repeat split; auto.
    - repeat split; simpl; auto.
    - simpl; auto.
  Qed.

  (** adding a cache entry whose object (and key object) is alive *)
  Lemma inv_add_cache st k e :
    inv st -> In (e_id e, e_srs e) (heap st) -> (forall i s, k = KObj i s -> In (i, s) (heap st)) ->
    inv (with_cache st ((k, e) :: cache st)) /\ ext st (with_cache st ((k, e) :: cache st)).
  Proof.
    intros I He Hk. destruct I as [Hnd Hc Hv Hp Ht].
    assert (X : ext st (with_cache st ((k, e) :: cache st))) by (repeat split; simpl; auto).
    split; auto.
    constructor; simpl; auto.
    - intros k' e' [H|H]; [inversion H; subst; auto | apply Hc; auto].
    - intros v H. destruct (Hv v H) as (A & B). split; auto. eapply pinned_ext; eauto.
    - intros i j xy d H. destruct (Ht i j xy d H) as (A & B & C & D & E).
      repeat split; auto; eapply pinned_ext; eauto.
  Qed.

  Lemma cache_get_In c k e : cache_get c k = Some e -> exists k', In (k', e) c /\ key_eqb W k' k = true.
  Proof.
    induction c as [|[k' e'] r IH]; simpl; [discriminate|].
    destruct (key_eqb W k' k) eqn:E; intros H.
    - inversion H; subst. exists k'; auto.
    - destruct (IH H) as (k'' & A & B). exists k''; auto.
  Qed.

  Lemma norm_entry_id id srs n : e_id (norm_entry W id srs n) = id /\ e_srs (norm_entry W id srs n) = srs.
  Proof. unfold norm_entry. destruct (o_is_epsg W (o_upper W srs)); simpl; auto. Qed.

  (** [make_crs]: the entry returned is in the cache afterwards and its object is alive *)
  Lemma make_crs_inv st sp nid st1 e :
    inv st -> (forall i s, sp = MObj i s -> In (i, s) (heap st)) ->
    make_crs st sp nid = Ok (st1, e) ->
    inv st1 /\ ext st st1 /\ (exists k, In (k, e) (cache st1)).
  Proof.
    intros I Hobj H. unfold CrsCache.make_crs in H.
    destruct (cache_get (cache st) (make_key W sp)) as [e0|] eqn:G.
    - inversion H; subst. split; auto. split; [apply ext_refl|].
      apply cache_get_In in G. destruct G as (k' & A & _). eauto.
    - destruct sp as [t|n|id srs].
      + destruct (o_prep W t) as [srs|]; [|discriminate].
        inv_ok H. inversion H; subst; clear H.
        destruct (inv_alloc _ _ _ _ I H0) as (I1 & X1 & Hin).
        destruct (norm_entry_id nid srs 0) as (E1 & E2).
        destruct (inv_add_cache x (make_key W (MStr t)) (norm_entry W nid srs 0) I1) as (I2 & X2).
        * rewrite E1, E2; auto.
        * intros i s E. unfold make_key in E. destruct (o_is_epsg W (o_upper W t)); discriminate.
        * split; auto. split; [eapply ext_trans; eauto|]. eexists; simpl; left; reflexivity.
      + destruct (o_prep W (o_epsg_text W n)) as [srs|]; [|discriminate].
        inv_ok H. inversion H; subst; clear H.
        destruct (inv_alloc _ _ _ _ I H0) as (I1 & X1 & Hin).
        destruct (norm_entry_id nid srs n) as (E1 & E2).
        destruct (inv_add_cache x (make_key W (MInt n)) (norm_entry W nid srs n) I1) as (I2 & X2).
        * rewrite E1, E2; auto.
        * intros i s E. discriminate.
        * split; auto. split; [eapply ext_trans; eauto|]. eexists; simpl; left; reflexivity.
      + inversion H; subst; clear H.
        destruct (norm_entry_id id srs 0) as (E1 & E2).
        destruct (inv_add_cache st (make_key W (MObj id srs)) (norm_entry W id srs 0) I) as (I2 & X2).
        * rewrite E1, E2. eapply Hobj; eauto.
        * intros i s E. simpl in E. inversion E; subst. eapply Hobj; eauto.
        * split; auto. split; auto. eexists; simpl; left; reflexivity.
  Qed.

  Lemma good_of_entry st k e : inv st -> In (k, e) (cache st) -> good_var st (crs_of_entry e).
  Proof.
    intros I H. split; simpl.
    - destruct (inv_cache st I k e H) as (A & _). exact A.
    - exists k, e; auto.
  Qed.

  Lemma get_var_In st i v : get_var st i = Ok v -> In (Some v) (vars st).
  Proof.
    unfold get_var. destruct (nth_error (vars st) i) as [[x|]|] eqn:E; intros H; inversion H; subst.
    eapply nth_error_In; eauto.
  Qed.

  Lemma get_py_In st i p : get_py st i = Ok p -> In (Some p) (pys st).
  Proof.
    unfold get_py. destruct (nth_error (pys st) i) as [[x|]|] eqn:E; intros H; inversion H; subst.
    eapply nth_error_In; eauto.
  Qed.

  Ltac use_make_crs I H0 tac :=
    match type of H0 with
    | CrsCache.make_crs _ ?st ?sp _ = _ =>
        let Hobj := fresh "Hobj" in
        assert (Hobj : forall i s, sp = MObj i s -> In (i, s) (heap st)) by tac;
        destruct (make_crs_inv _ _ _ _ _ I Hobj H0) as (Im & Xm & km & Hkm)
    end.

  Lemma crs_new_inv st s nid st1 v :
    inv st -> crs_new st s nid = Ok (st1, v) -> inv st1 /\ ext st st1 /\ good_var st1 v.
  Proof.
    intros I H. destruct s as [n|t|t|t|i|i|i]; simpl in H.
    - inv_ok H. destruct x as (s2 & e). inversion H; subst; clear H. simpl in *.
      use_make_crs I H0 ltac:(intros; discriminate).
      split; auto. split; auto. eapply good_of_entry; eauto.
    - inv_ok H. destruct x as (s2 & e). inversion H; subst; clear H. simpl in *.
      use_make_crs I H0 ltac:(intros; discriminate).
      split; auto. split; auto. eapply good_of_entry; eauto.
    - destruct (o_prep W t) as [srs|]; [|discriminate].
      inv_ok H. inv_ok H. destruct x0 as (s2 & e). inversion H; subst; clear H. simpl in *.
      destruct (inv_alloc _ _ _ _ I H0) as (Ia & Xa & Hin).
      use_make_crs Ia H1 ltac:(intros ? ? E; inversion E; subst; auto).
      split; auto. split; [eapply ext_trans; eauto|]. eapply good_of_entry; eauto.
    - destruct (o_prep W t) as [srs|]; [|discriminate].
      inv_ok H. inv_ok H. destruct x0 as (s2 & e). inversion H; subst; clear H. simpl in *.
      destruct (inv_alloc _ _ _ _ I H0) as (Ia & Xa & Hin).
      use_make_crs Ia H1 ltac:(intros ? ? E; inversion E; subst; auto).
      split; auto. split; [eapply ext_trans; eauto|]. eapply good_of_entry; eauto.
    - inv_ok H. inv_ok H. destruct x0 as (s2 & e). inversion H; subst; clear H. simpl in *.
      apply get_py_In in H0. destruct x as (pid & psrs).
      assert (Hp : In (pid, psrs) (heap st)) by (apply (inv_pys st I); auto).
      use_make_crs I H1 ltac:(intros ? ? E; inversion E; subst; auto).
      split; auto. split; auto. eapply good_of_entry; eauto.
    - inv_ok H. inversion H; subst; clear H. split; auto. split; [apply ext_refl|].
      apply get_var_In in H0. apply (inv_vars st1 I); auto.
    - inv_ok H. inv_ok H. destruct x0 as (s2 & e). inversion H; subst; clear H. simpl in *.
      use_make_crs I H1 ltac:(intros; discriminate).
      split; auto. split; auto. eapply good_of_entry; eauto.
  Qed.

  Lemma inv_push_var st v : inv st -> good_var st v -> inv (with_vars st (vars st ++ [Some v])).
  Proof.
    intros I G. destruct I as [Hnd Hc Hv Hp Ht]. constructor; simpl; auto.
    intros v' H. apply in_app_or in H. destruct H as [H|[H|[]]].
    - apply Hv; auto.
    - inversion H; subst; auto.
  Qed.

  Lemma inv_set_var st i v : inv st -> good_var st v -> inv (with_vars st (set_nth (vars st) i (Some v))).
  Proof.
    intros I G. destruct I as [Hnd Hc Hv Hp Ht]. constructor; simpl; auto.
    intros v' H. apply In_set_nth in H. destruct H as [H|H]; [inversion H; subst; auto | apply Hv; auto].
  Qed.

  Lemma inv_drop_var st i : inv st -> inv (with_vars st (set_nth (vars st) i None)).
  Proof.
    intros I. destruct I as [Hnd Hc Hv Hp Ht]. constructor; simpl; auto.
    intros v' H. apply In_set_nth in H. destruct H as [H|H]; [discriminate | apply Hv; auto].
  Qed.

  Lemma inv_drop_py st i : inv st -> inv (with_pys st (set_nth (pys st) i None)).
  Proof.
    intros I. destruct I as [Hnd Hc Hv Hp Ht]. constructor; simpl; auto.
    intros v' H. apply In_set_nth in H. destruct H as [H|H]; [discriminate | apply Hp; auto].
  Qed.

  Lemma tc_get_In c k d : tc_get c k = Some d -> In (k, d) c.
  Proof.
    induction c as [|[k' d'] r IH]; simpl; [discriminate|].
    destruct (tk_eqb k' k) eqn:E; intros H.
    - inversion H; subst. left. f_equal.
      unfold tk_eqb in E. destruct k' as [[a b] x], k as [[a' b'] x']. simpl in E.
      apply andb_true_iff in E. destruct E as (E & E3). apply andb_true_iff in E. destruct E as (E1 & E2).
      apply Z.eqb_eq in E1, E2. apply eqb_prop in E3. subst; auto.
    - right; auto.
  Qed.

  (** the object a live CRS instance points to has exactly the recorded content *)
  Lemma var_content st v s : inv st -> In (Some v) (vars st) -> In (c_id v, s) (heap st) -> s = c_srs v.
  Proof.
    intros I H Hs. destruct (inv_vars st I v H) as (A & _).
    eapply NoDup_fst_fun; eauto. apply (inv_nodup st I).
  Qed.

  (** * every operation preserves the invariant *)
  Theorem step_inv st o st' x : inv st -> step st o = Ok (st', x) -> inv st'.
  Proof.
    intros I H. destruct o as [t nid|s nid|i|i j|i|i| |i j xy]; simpl in H.
    - destruct (o_prep W t) as [srs|]; [|discriminate].
      inv_ok H. inversion H; subst; clear H.
      destruct (inv_alloc _ _ _ _ I H0) as (I1 & X1 & Hin).
      destruct I1 as [Hnd Hc Hv Hp Ht]. constructor; simpl; auto.
      intros p H. apply in_app_or in H. destruct H as [H|[H|[]]]; [apply Hp; auto|].
      inversion H; subst; auto.
    - inv_ok H. destruct x0 as (st1 & v). inversion H; subst; clear H. simpl.
      destruct (crs_new_inv _ _ _ _ _ I H0) as (I1 & X & G).
      apply inv_sweep. apply inv_push_var; auto.
    - inv_ok H. inversion H; subst; clear H.
      apply inv_set_var; auto. apply get_var_In in H0.
      destruct (inv_vars st I x0 H0) as (A & B).
      unfold to_epsg. destruct (oz_eqb (c_epsg x0) (Some 0)); split; simpl; auto.
    - inv_ok H. inv_ok H. inversion H; subst; auto.
    - inv_ok H. inversion H; subst; clear H. apply inv_sweep. apply inv_drop_var; auto.
    - inv_ok H. inversion H; subst; clear H. apply inv_sweep. apply inv_drop_py; auto.
    - inversion H; subst. apply inv_sweep; auto.
    - inv_ok H. inv_ok H.
      destruct (tc_get (tcache st) (c_id x0, c_id x1, xy)) as [d|] eqn:G.
      + inversion H; subst; auto.
      + inversion H; subst; clear H.
        apply get_var_In in H0, H1.
        destruct (inv_vars st I x0 H0) as (A0 & B0). destruct (inv_vars st I x1 H1) as (A1 & B1).
        destruct I as [Hnd Hc Hv Hp Ht]. constructor; simpl; auto.
        intros i' j' xy' d [H|H]; [|apply Ht; auto].
        inversion H; subst; simpl. repeat split; auto.
  Qed.

  Theorem run_inv h : forall st, inv st -> inv (run st h).
  Proof.
    induction h as [|o r IH]; intros st I; simpl; auto.
    destruct (step st o) as [[st' x]|e] eqn:E; auto.
    apply IH. eapply step_inv; eauto.
  Qed.

  Corollary reachable_inv h : inv (run init h).
  Proof. apply run_inv, inv_init. Qed.

  (** * pinned objects stay alive, keep their id and their content *)
  Lemma ext_sweep_pinned st st1 id s :
    ext st st1 -> pinned st id -> In (id, s) (heap st) ->
    forall vs, In (id, s) (heap (sweep (with_vars st1 vs))) /\ pinned (sweep (with_vars st1 vs)) id.
  Proof.
    intros X P H vs. split.
    - apply sweep_keeps; simpl; [apply X; auto|].
      apply (pinned_ext _ _ _ X) in P. destruct P as (k & e & A & B). subst.
      unfold roots; simpl. apply in_or_app; left. unfold cache_ids. apply in_flat_map.
      exists (k, e); split; simpl; auto.
    - apply (pinned_ext _ _ _ X) in P. exact P.
  Qed.

  Lemma sweep_pinned st id s :
    pinned st id -> In (id, s) (heap st) -> In (id, s) (heap (sweep st)) /\ pinned (sweep st) id.
  Proof.
    intros P H. split; [|exact P]. apply sweep_keeps; auto. simpl. apply root_pinned; auto.
  Qed.

  Theorem step_pinned st o st' x id s :
    inv st -> step st o = Ok (st', x) -> pinned st id -> In (id, s) (heap st) ->
    In (id, s) (heap st') /\ pinned st' id.
  Proof.
    intros I H P Hs. destruct o as [t nid|sp nid|i|i j|i|i| |i j xy]; simpl in H.
    - destruct (o_prep W t) as [srs|]; [|discriminate].
      inv_ok H. inversion H; subst; clear H.
      apply alloc_ok in H0. destruct H0 as (-> & _). simpl. split; auto.
    - inv_ok H. destruct x0 as (st1 & v). inversion H; subst; clear H. simpl.
      destruct (crs_new_inv _ _ _ _ _ I H0) as (I1 & X & G).
      apply (ext_sweep_pinned st st1 id s X P Hs).
    - inv_ok H. inversion H; subst; clear H. simpl. auto.
    - inv_ok H. inv_ok H. inversion H; subst; auto.
    - inv_ok H. inversion H; subst; clear H.
      apply (ext_sweep_pinned st st id s (ext_refl st) P Hs).
    - inv_ok H. inversion H; subst; clear H. apply sweep_pinned; simpl; auto.
    - inversion H; subst. apply sweep_pinned; auto.
    - inv_ok H. inv_ok H.
      destruct (tc_get (tcache st) (c_id x0, c_id x1, xy)); inversion H; subst; simpl; auto.
  Qed.

  Theorem run_pinned h : forall st id s,
    inv st -> pinned st id -> In (id, s) (heap st) ->
    In (id, s) (heap (run st h)) /\ pinned (run st h) id.
  Proof.
    induction h as [|o r IH]; intros st id s I P Hs; simpl; auto.
    destruct (step st o) as [[st' x]|e] eqn:E; auto.
    destruct (step_pinned _ _ _ _ _ _ I E P Hs) as (A & B).
    apply IH; auto. eapply step_inv; eauto.
  Qed.

  (** * transformers *)
  Theorem transformer_exact st i j xy a b st' d :
    inv st -> get_var st i = Ok a -> get_var st j = Ok b ->
    step st (OpTransformer i j xy) = Ok (st', OTr d) ->
    d = (c_srs a, c_srs b, xy).
  Proof.
    intros I Ha Hb H. simpl in H. rewrite Ha, Hb in H. simpl in H.
    destruct (tc_get (tcache st) (c_id a, c_id b, xy)) as [d0|] eqn:G.
    - inversion H; subst; clear H. apply tc_get_In in G.
      destruct (inv_tc _ I _ _ _ _ G) as (E & A & B & _).
      apply get_var_In in Ha, Hb.
      apply (var_content _ a _ I Ha) in A. apply (var_content _ b _ I Hb) in B.
      destruct d as [[s1 s2] x]. simpl in *. subst. reflexivity.
    - inversion H; subst; reflexivity.
  Qed.

  (** an id used in a transformer-cache key cannot be handed out by the allocator *)
  Theorem transformer_ids_not_reusable st i j xy d srs :
    inv st -> In ((i, j, xy), d) (tcache st) ->
    alloc st i srs = Err (EAssert 1) /\ alloc st j srs = Err (EAssert 1).
  Proof.
    intros I H. destruct (inv_tc st I _ _ _ _ H) as (_ & A & B & _).
    unfold alloc. split.
    - replace (heap_has (heap st) i) with true; auto. symmetry. apply heap_has_iff.
      apply in_map_iff. exists (i, fst (fst d)); auto.
    - replace (heap_has (heap st) j) with true; auto. symmetry. apply heap_has_iff.
      apply in_map_iff. exists (j, snd (fst d)); auto.
  Qed.
End Proofs.
