(** Proofs for C13: chunked reprojection = whole-array reprojection. *)
From Coq Require Import ZArith List Bool Lia.
From OG Require Import Base.Result Model.ChunkedWarp.
Import ListNotations.
Open Scope Z_scope.

(* ------------------------------------------------------------------ small list facts *)
Lemma nth_map_seq {A} (f : nat -> A) n d k : (k < n)%nat -> nth k (map f (seq 0 n)) d = f k.
Proof.
  intros H. rewrite (nth_indep _ d (f 0%nat)) by (rewrite map_length, seq_length; exact H).
  rewrite map_nth. rewrite seq_nth by exact H. reflexivity.
Qed.

Lemma nth_map_lt {A B} (f : A -> B) l d d' k : (k < length l)%nat -> nth k (map f l) d = f (nth k l d').
Proof.
  intros H. rewrite (nth_indep _ d (f d')) by (rewrite map_length; exact H). apply map_nth.
Qed.

Lemma nth_repeat_lt {A} (a d : A) n k : (k < n)%nat -> nth k (repeat a n) d = a.
Proof.
  revert k; induction n as [|n IH]; intros k H; [lia|].
  destruct k; simpl; [reflexivity | apply IH; lia].
Qed.

Lemma combine_map_map {A B C} (f : A -> B) (g : A -> C) l :
  combine (map f l) (map g l) = map (fun a => (f a, g a)) l.
Proof. induction l as [|a l IH]; simpl; [reflexivity | rewrite IH; reflexivity]. Qed.

Lemma fold_left_map {A B C} (f : A -> B -> A) (g : C -> B) l :
  forall a, fold_left f (map g l) a = fold_left (fun a x => f a (g x)) l a.
Proof. induction l as [|x l IH]; intros a; simpl; [reflexivity | apply IH]. Qed.

Lemma lmin_le_init l : forall a, lmin a l <= a.
Proof. unfold lmin; induction l as [|b l IH]; intros a; simpl; [lia | specialize (IH (Z.min a b)); lia]. Qed.

Lemma lmin_le_in l : forall a x, In x l -> lmin a l <= x.
Proof.
  unfold lmin; induction l as [|b l IH]; intros a x H; simpl in *; [contradiction|].
  destruct H as [<- | H]; [pose proof (lmin_le_init l (Z.min a b)); unfold lmin in *; lia | apply IH; exact H].
Qed.

Lemma lmin_in l : forall a, lmin a l = a \/ In (lmin a l) l.
Proof.
  unfold lmin; induction l as [|b l IH]; intros a; simpl; [left; reflexivity|].
  destruct (IH (Z.min a b)) as [E | H]; [| right; right; exact H].
  rewrite E. destruct (Z.min_spec a b) as [[_ ->] | [_ ->]]; [left; reflexivity | right; left; reflexivity].
Qed.

Lemma lmax_ge_init l : forall a, a <= lmax a l.
Proof. unfold lmax; induction l as [|b l IH]; intros a; simpl; [lia | specialize (IH (Z.max a b)); lia]. Qed.

Lemma lmax_ge_in l : forall a x, In x l -> x <= lmax a l.
Proof.
  unfold lmax; induction l as [|b l IH]; intros a x H; simpl in *; [contradiction|].
  destruct H as [<- | H]; [pose proof (lmax_ge_init l (Z.max a b)); unfold lmax in *; lia | apply IH; exact H].
Qed.

Lemma lmax_in l : forall a, lmax a l = a \/ In (lmax a l) l.
Proof.
  unfold lmax; induction l as [|b l IH]; intros a; simpl; [left; reflexivity|].
  destruct (IH (Z.max a b)) as [E | H]; [| right; right; exact H].
  rewrite E. destruct (Z.max_spec a b) as [[_ ->] | [_ ->]]; [right; left; reflexivity | left; reflexivity].
Qed.

Lemma in_view_iff v y x :
  in_view v y x = true <-> (vy0 v <= y < vy0 v + vh v /\ vx0 v <= x < vx0 v + vw v).
Proof.
  unfold in_view. rewrite !andb_true_iff, !Z.leb_le, !Z.ltb_lt. lia.
Qed.

Lemma in_view_false v y x :
  ~ (vy0 v <= y < vy0 v + vh v /\ vx0 v <= x < vx0 v + vw v) -> in_view v y x = false.
Proof.
  intros H. destruct (in_view v y x) eqn:E; [|reflexivity]. apply in_view_iff in E. contradiction.
Qed.

(* ------------------------------------------------------------------ offsets / tilings *)
(** contract of a tiling axis (the C04 partition theorem supplies it): boundaries start at
    0 and never decrease, so tile [i] is the half-open interval [off i, off (i+1)) *)
Definition axis_ok (n : Z) (off : Z -> Z) : Prop :=
  0 <= n /\ off 0 = 0 /\ forall i, 0 <= i < n -> off i <= off (i + 1).

Definition tiling_ok (t : tiling) : Prop := axis_ok (nty t) (offy t) /\ axis_ok (ntx t) (offx t).

Lemma axis_mono n off : axis_ok n off -> forall i j, 0 <= i -> i <= j -> j <= n -> off i <= off j.
Proof.
  intros (Hn & _ & Hs) i j Hi Hij Hj.
  replace j with (i + Z.of_nat (Z.to_nat (j - i))) in * by lia.
  generalize dependent (Z.to_nat (j - i)). intros k; induction k as [|k IH]; intros Hij Hj.
  - replace (i + Z.of_nat 0) with i by lia. lia.
  - replace (i + Z.of_nat (S k)) with (i + Z.of_nat k + 1) in * by lia.
    specialize (Hs (i + Z.of_nat k)). lia.
Qed.

Lemma locate_from_spec off : forall fuel i y,
  (forall k, i <= k < i + Z.of_nat fuel -> off k <= off (k + 1)) ->
  off i <= y < off (i + Z.of_nat fuel) ->
  let r := locate_from off fuel i y in
  i <= r < i + Z.of_nat fuel /\ off r <= y < off (r + 1).
Proof.
  induction fuel as [|f IH]; intros i y Hm Hy; simpl.
  - replace (i + Z.of_nat 0) with i in Hy by lia. lia.
  - destruct (Z.ltb_spec y (off (i + 1))) as [Hlt | Hge].
    + split; lia.
    + destruct (IH (i + 1) y) as (H1 & H2).
      * intros k Hk. apply Hm. lia.
      * replace (i + 1 + Z.of_nat f) with (i + Z.of_nat (S f)) by lia. lia.
      * split; [lia | exact H2].
Qed.

Lemma locate_spec n off y : axis_ok n off -> 0 <= y < off n ->
  0 <= locate off n y < n /\ off (locate off n y) <= y < off (locate off n y + 1).
Proof.
  intros (Hn & H0 & Hs) Hy. unfold locate.
  pose proof (locate_from_spec off (Z.to_nat n) 0 y) as L. simpl in L.
  rewrite Z2Nat.id in L by lia. apply L; [intros k Hk; apply Hs; lia | lia].
Qed.

(** a coordinate lies in at most one tile (second half of the partition property) *)
Lemma axis_tile_unique n off i j y : axis_ok n off ->
  0 <= i < n -> 0 <= j < n -> off i <= y < off (i + 1) -> off j <= y < off (j + 1) -> i = j.
Proof.
  intros Hok Hi Hj Hyi Hyj.
  destruct (Z.lt_trichotomy i j) as [L | [E | L]]; [| exact E |].
  - pose proof (axis_mono n off Hok (i + 1) j). lia.
  - pose proof (axis_mono n off Hok (j + 1) i). lia.
Qed.

(** concrete tilings built from chunk-size lists satisfy the contract *)
Lemma offs_0 ch : offs ch 0 = 0.
Proof. reflexivity. Qed.

Lemma offs_step ch : (forall c, In c ch -> 0 <= c) ->
  forall i, 0 <= i < Z.of_nat (length ch) -> offs ch i <= offs ch (i + 1).
Proof.
  intros Hc i Hi. unfold offs.
  replace (Z.to_nat (i + 1)) with (S (Z.to_nat i)) by lia.
  assert (Hl : (Z.to_nat i < length ch)%nat) by lia. clear Hi.
  generalize dependent (Z.to_nat i). clear i. induction ch as [|c ch IH]; intros k Hl; simpl in Hl; [lia|].
  destruct k.
  - simpl. destruct ch; simpl; specialize (Hc c (or_introl eq_refl)); lia.
  - change (firstn (S (S k)) (c :: ch)) with (c :: firstn (S k) ch).
    change (firstn (S k) (c :: ch)) with (c :: firstn k ch). cbn [fold_right].
    assert (fold_right Z.add 0 (firstn k ch) <= fold_right Z.add 0 (firstn (S k) ch)).
    { apply IH; [intros c' H'; apply Hc; right; exact H' | lia]. }
    lia.
Qed.

Lemma tiling_of_ok chy chx :
  (forall c, In c chy -> 0 <= c) -> (forall c, In c chx -> 0 <= c) -> tiling_ok (tiling_of chy chx).
Proof.
  intros Hy Hx. split; unfold axis_ok; simpl; (split; [lia | split; [reflexivity |]]).
  - apply offs_step; exact Hy.
  - apply offs_step; exact Hx.
Qed.

(* ------------------------------------------------------------------ fill decision table *)
Section FillFacts.
  Context {dtype N V : Type}.
  Variable is_float : dtype -> bool.
  Variable cast : dtype -> N -> V.
  Variable vnan vzero : dtype -> V.
  Variable nanN : N.
  Hypothesis cast_nan : forall dt, is_float dt = true -> cast dt nanN = vnan dt.

  Let resolve := resolve_fill_value is_float cast vnan vzero.
  Let ginit := gdal_init cast vzero.

  (** repaired task chunks: what the warp leaves in unwritten pixels is resolve_fill_value,
      for every combination of destination nodata, source nodata and dtype *)
  Lemma chunk_fill_is_resolved dn sn dt :
    ginit (chunk_dst_nodata is_float nanN true dn sn dt) sn dt = resolve dn sn dt.
  Proof.
    unfold ginit, resolve, gdal_init, resolve_fill_value, chunk_dst_nodata.
    destruct dn as [d|], sn as [s|]; try reflexivity.
    destruct (is_float dt) eqn:F; [apply cast_nan; exact F | reflexivity].
  Qed.

  (** in-memory path: the same, except float data with only a source nodata *)
  Lemma rio_fill_is_resolved dn sn dt :
    (dn <> None \/ sn = None \/ is_float dt = false) ->
    ginit (rio_dst_nodata is_float nanN dn dt) sn dt = resolve dn sn dt.
  Proof.
    unfold ginit, resolve, gdal_init, resolve_fill_value, rio_dst_nodata.
    intros H. destruct dn as [d|]; [reflexivity|].
    destruct (is_float dt) eqn:F.
    - destruct sn as [s|]; [destruct H as [H | [H | H]]; congruence | apply cast_nan; exact F].
    - reflexivity.
  Qed.

  Lemma same_dst_nodata dn sn dt :
    (dn <> None \/ sn = None \/ is_float dt = false) ->
    chunk_dst_nodata is_float nanN true dn sn dt = rio_dst_nodata is_float nanN dn dt.
  Proof.
    unfold chunk_dst_nodata, rio_dst_nodata. intros H.
    destruct dn as [d|]; [reflexivity|]. destruct sn as [s|]; [|reflexivity].
    destruct H as [H | [H | H]]; [congruence | congruence | rewrite H; reflexivity].
  Qed.

  (** after the defaulting of _xr_reproject_da the exception cannot occur *)
  Lemma xr_nodata_no_corner (dn kw attr : option N) (dt : dtype) :
    let p := xr_nodata dn kw attr in
    snd p <> None \/ fst p = None \/ is_float dt = false.
  Proof.
    unfold xr_nodata; simpl. destruct dn; [left; discriminate|].
    destruct kw; [left; discriminate|]. destruct attr; [left; discriminate | right; left; reflexivity].
  Qed.

  (** the unrepaired code handed dst_nodata through: float data without nodata was
      initialised with 0 in task chunks *)
  Lemma unrepaired_chunk_fill dt :
    ginit (chunk_dst_nodata is_float nanN false None None dt) None dt = vzero dt.
  Proof. reflexivity. Qed.
End FillFacts.

(* ------------------------------------------------------------------ main development *)
Section Main.
  Context {dtype N V : Type}.
  Variable is_float : dtype -> bool.
  Variable cast : dtype -> N -> V.
  Variable vnan vzero : dtype -> V.
  Variable nanN : N.
  Hypothesis cast_nan : forall dt, is_float dt = true -> cast dt nanN = vnan dt.

  (** the warp oracle and its contract *)
  Variable warp : @warp_t dtype N V.
  Variable nn : Z -> Z -> Z * Z.
  Variable sample : option N -> option N -> dtype -> V -> V.
  Let ginit := gdal_init cast vzero.
  Definition warp_contract : Prop :=
    forall dn sn dt sv s dv y x, 0 <= y < vh dv -> 0 <= x < vw dv ->
      warp dn sn dt sv s dv y x = warp_local nn sample ginit dn sn dt sv s dv y x.
  Hypothesis warp_is_local : warp_contract.

  (** tilings of source and destination and the dependency map *)
  Variables st dtl : tiling.
  Hypothesis st_ok : tiling_ok st.     (* C04 *)
  Hypothesis dtl_ok : tiling_ok dtl.   (* C04 *)
  Variable d2s : idx -> list idx.

  Let SH := offy st (nty st).
  Let SW := offx st (ntx st).

  Definition in_tile (t : tiling) (i : idx) (y x : Z) : Prop :=
    offy t (fst i) <= y < offy t (fst i + 1) /\ offx t (snd i) <= x < offx t (snd i + 1).
  Definition tile_in_range (t : tiling) (i : idx) : Prop :=
    0 <= fst i < nty t /\ 0 <= snd i < ntx t.
  Definition in_source (p : Z * Z) : Prop := 0 <= fst p < SH /\ 0 <= snd p < SW.

  (** C12 contracts on the dependency map *)
  Definition deps_in_range : Prop :=
    forall j i, In i (d2s j) -> tile_in_range st i.
  Definition deps_complete : Prop :=
    forall j y x, tile_in_range dtl j -> in_tile dtl j y x -> in_source (nn y x) ->
      exists i, In i (d2s j) /\ in_tile st i (fst (nn y x)) (snd (nn y x)).

  Hypothesis H_range : deps_in_range.

  Let resolve := resolve_fill_value is_float cast vnan vzero.
  Let chunk := dask_chunk is_float cast vnan vzero nanN warp true d2s st dtl.
  Let whole := rio_reproject is_float nanN warp st dtl.

  Lemma idx_in_range_true i : tile_in_range st i -> idx_in_range st i = true.
  Proof.
    unfold tile_in_range, idx_in_range. intros H.
    rewrite !andb_true_iff, !Z.leb_le, !Z.ltb_lt. lia.
  Qed.

  Lemma forallb_in_range j : forallb (idx_in_range st) (d2s j) = true.
  Proof. apply forallb_forall. intros i Hi. apply idx_in_range_true. exact (H_range j i Hi). Qed.

  (** the window computed by clip: contains every selected tile and lies inside the source *)
  Lemma clip_spec sel :
    sel <> [] -> (forall i, In i sel -> tile_in_range st i) ->
    exists y1 y2 x1 x2,
      clip st sel =
        Some ({| nty := y2 + 1 - y1; ntx := x2 + 1 - x1;
                 offy := fun i => offy st (i + y1) - offy st y1;
                 offx := fun i => offx st (i + x1) - offx st x1 |},
              {| vy0 := offy st y1; vx0 := offx st x1;
                 vh := offy st (y2 + 1) - offy st y1; vw := offx st (x2 + 1) - offx st x1 |},
              map (fun i => (fst i - y1, snd i - x1)) sel) /\
      0 <= y1 /\ y2 < nty st /\ 0 <= x1 /\ x2 < ntx st /\
      (forall i, In i sel -> y1 <= fst i <= y2 /\ x1 <= snd i <= x2).
  Proof.
    intros Hne Hr. destruct sel as [|[y0 x0] rest]; [congruence|].
    exists (lmin y0 (map fst rest)), (lmax y0 (map fst rest)), (lmin x0 (map snd rest)), (lmax x0 (map snd rest)).
    split; [reflexivity|].
    assert (R0 := Hr (y0, x0) (or_introl eq_refl)). unfold tile_in_range in R0; simpl in R0.
    assert (Rf : forall v, In v (map fst rest) -> 0 <= v < nty st).
    { intros v Hv. apply in_map_iff in Hv. destruct Hv as (i & <- & Hi). apply (Hr i). right; exact Hi. }
    assert (Rs : forall v, In v (map snd rest) -> 0 <= v < ntx st).
    { intros v Hv. apply in_map_iff in Hv. destruct Hv as (i & <- & Hi). apply (Hr i). right; exact Hi. }
    split. { destruct (lmin_in (map fst rest) y0) as [-> | H]; [lia | apply Rf in H; lia]. }
    split. { destruct (lmax_in (map fst rest) y0) as [-> | H]; [lia | apply Rf in H; lia]. }
    split. { destruct (lmin_in (map snd rest) x0) as [-> | H]; [lia | apply Rs in H; lia]. }
    split. { destruct (lmax_in (map snd rest) x0) as [-> | H]; [lia | apply Rs in H; lia]. }
    intros i [<- | Hi]; simpl.
    - pose proof (lmin_le_init (map fst rest) y0). pose proof (lmax_ge_init (map fst rest) y0).
      pose proof (lmin_le_init (map snd rest) x0). pose proof (lmax_ge_init (map snd rest) x0). lia.
    - pose proof (lmin_le_in (map fst rest) y0 (fst i) (in_map fst _ _ Hi)).
      pose proof (lmax_ge_in (map fst rest) y0 (fst i) (in_map fst _ _ Hi)).
      pose proof (lmin_le_in (map snd rest) x0 (snd i) (in_map snd _ _ Hi)).
      pose proof (lmax_ge_in (map snd rest) x0 (snd i) (in_map snd _ _ Hi)). lia.
  Qed.

  (** BlockAssembler.extract: wherever some pasted block covers a window pixel the
      assembled value is the source value, provided every block is a faithful piece of
      the source *)
  Lemma fold_paste_spec (S : plane V) (vw_of : idx -> view) (blk : idx -> plane V) :
    forall (l : list idx) (acc : plane V) y x,
      (forall i, In i l -> forall y x, in_view (vw_of i) y x = true ->
                                  blk i (y - vy0 (vw_of i)) (x - vx0 (vw_of i)) = S y x) ->
      (acc y x = S y x \/ exists i, In i l /\ in_view (vw_of i) y x = true) ->
      fold_left (fun a i => paste a (vw_of i) (blk i)) l acc y x = S y x.
  Proof.
    induction l as [|i l IH]; intros acc y x Hc H; simpl.
    - destruct H as [H | (i & [] & _)]; exact H.
    - apply IH; [intros i' Hi'; apply Hc; right; exact Hi'|].
      unfold paste at 1. destruct (in_view (vw_of i) y x) eqn:E.
      + left. apply Hc; [left; reflexivity | exact E].
      + destruct H as [H | (i' & [<- | Hi'] & E')]; [left; exact H | congruence | right; exists i'; split; assumption].
  Qed.

  (** --- a task chunk, pixel by pixel ------------------------------------------------- *)
  Lemma task_chunk_pixel (src : list (plane V)) dn sn dt j :
    d2s j <> [] -> tile_in_range dtl j ->
    exists ps,
      chunk src dn sn dt j = Ok ps /\ length ps = length src /\
      forall k dflt dflt' y x, (k < length src)%nat ->
        0 <= y < vh (tile_view dtl j) -> 0 <= x < vw (tile_view dtl j) ->
        let p := nn (y + offy dtl (fst j)) (x + offx dtl (snd j)) in
        let dn' := chunk_dst_nodata is_float nanN true dn sn dt in
        (in_source p -> (exists i, In i (d2s j) /\ in_tile st i (fst p) (snd p)) ->
           nth k ps dflt y x = sample dn' sn dt (nth k src dflt' (fst p) (snd p))) /\
        (~ in_source p -> nth k ps dflt y x = ginit dn' sn dt).
  Proof.
    intros Hne Hj.
    destruct (clip_spec (d2s j) Hne (H_range j)) as (y1 & y2 & x1 & x2 & Ec & Hy1 & Hy2 & Hx1 & Hx2 & Hsel).
    unfold chunk, dask_chunk, graph_node.
    destruct (d2s j) as [|i0 rest] eqn:Ed; [congruence|]. rewrite <- Ed in *.
    unfold run_node. rewrite forallb_in_range. unfold do_chunked_reproject. rewrite Ec.
    rewrite combine_map_map.
    match goal with |- context [map ?f (d2s j)] => set (blocks := map f (d2s j)) end.
    assert (Hnp : nplanes blocks = length src).
    { unfold blocks. rewrite Ed. simpl. unfold src_block. apply map_length. }
    eexists. split; [reflexivity|]. split; [rewrite map_length, seq_length; exact Hnp|].
    intros k dflt dflt' y x Hk Hy Hx.
    set (p := nn (y + offy dtl (fst j)) (x + offx dtl (snd j))).
    set (dn' := chunk_dst_nodata is_float nanN true dn sn dt).
    rewrite nth_map_seq by (rewrite Hnp; exact Hk).
    rewrite warp_is_local by assumption.
    unfold warp_local. cbn [vy0 vx0 tile_view].
    fold p.
    destruct st_ok as (Hoy & Hox).
    set (wv := {| vy0 := offy st y1; vx0 := offx st x1; vh := offy st (y2 + 1) - offy st y1;
                  vw := offx st (x2 + 1) - offx st x1 |}).
    split.
    - intros Hin (i & Hi & Hit).
      destruct (Hsel i Hi) as (Hiy & Hix). destruct Hit as (Hty & Htx).
      pose proof (H_range j i Hi) as (Riy & Rix).
      pose proof (axis_mono _ _ Hoy y1 (fst i)). pose proof (axis_mono _ _ Hoy (fst i + 1) (y2 + 1)).
      pose proof (axis_mono _ _ Hox x1 (snd i)). pose proof (axis_mono _ _ Hox (snd i + 1) (x2 + 1)).
      assert (Ew : in_view wv (fst p) (snd p) = true).
      { apply in_view_iff. unfold wv; simpl. lia. }
      rewrite Ew. f_equal.
      (* the assembled window holds the source value *)
      unfold ba_extract, blocks. rewrite fold_left_map. cbn [fst snd].
      set (ct := {| nty := y2 + 1 - y1; ntx := x2 + 1 - x1; offy := fun i => offy st (i + y1) - offy st y1;
                    offx := fun i => offx st (i + x1) - offx st x1 |}).
      set (fillv := extract_fill is_float cast vnan vzero sn dt).
      pose (S := fun yy xx => nth k src dflt' (yy + offy st y1) (xx + offx st x1)).
      replace (nth k src dflt' (fst p) (snd p)) with (S (fst p - vy0 wv) (snd p - vx0 wv))
        by (unfold S, wv; simpl; f_equal; lia).
      apply (fold_paste_spec S (fun a => tile_view ct (fst a - y1, snd a - x1))
                             (fun a => nth k (src_block st src a) (fun _ _ => fillv))).
      + intros a Ha yy xx Hv. apply in_view_iff in Hv. unfold ct in Hv. cbn in Hv.
        replace (fst a - y1 + y1) with (fst a) in Hv by lia.
        replace (snd a - x1 + x1) with (snd a) in Hv by lia.
        unfold src_block. rewrite (nth_map_lt _ src _ dflt') by exact Hk.
        unfold S, ct. cbn.
        replace (fst a - y1 + y1) with (fst a) by lia.
        replace (snd a - x1 + x1) with (snd a) by lia.
        f_equal; lia.
      + right. exists i. split; [exact Hi|]. apply in_view_iff. unfold ct, wv. cbn.
        replace (fst i - y1 + y1) with (fst i) by lia.
        replace (snd i - x1 + x1) with (snd i) by lia.
        replace (fst i - y1 + 1 + y1) with (fst i + 1) by lia.
        replace (snd i - x1 + 1 + x1) with (snd i + 1) by lia. lia.
    - intros Hout.
      assert (Ew : in_view wv (fst p) (snd p) = false).
      { apply in_view_false. unfold wv; simpl. intros (Hwy & Hwx). apply Hout.
        assert (Hi0 : In i0 (d2s j)) by (rewrite Ed; left; reflexivity).
        destruct (Hsel i0 Hi0) as (Hi0y & Hi0x).
        unfold in_source, SH, SW.
        pose proof (axis_mono _ _ Hoy 0 y1). pose proof (axis_mono _ _ Hoy (y2 + 1) (nty st)).
        pose proof (axis_mono _ _ Hox 0 x1). pose proof (axis_mono _ _ Hox (x2 + 1) (ntx st)).
        destruct Hoy as (_ & Hoy0 & _). destruct Hox as (_ & Hox0 & _). lia. }
      rewrite Ew. reflexivity.
  Qed.

  (** --- a constant chunk --------------------------------------------------------------- *)
  Lemma const_chunk_pixel (src : list (plane V)) dn sn dt j :
    d2s j = [] ->
    chunk src dn sn dt j = Ok (repeat (fun _ _ => resolve dn sn dt) (length src)).
  Proof. intros E. unfold chunk, dask_chunk, graph_node. rewrite E. reflexivity. Qed.

  (** --- the whole-array result, pixel by pixel --------------------------------------- *)
  Lemma whole_pixel (src : list (plane V)) dn sn dt k dflt dflt' y x :
    (k < length src)%nat -> 0 <= y < offy dtl (nty dtl) -> 0 <= x < offx dtl (ntx dtl) ->
    let dn' := rio_dst_nodata is_float nanN dn dt in
    (in_source (nn y x) ->
       nth k (whole src dn sn dt) dflt y x = sample dn' sn dt (nth k src dflt' (fst (nn y x)) (snd (nn y x)))) /\
    (~ in_source (nn y x) -> nth k (whole src dn sn dt) dflt y x = ginit dn' sn dt).
  Proof.
    intros Hk Hy Hx dn'. unfold whole, rio_reproject.
    rewrite (nth_map_lt _ src _ dflt') by exact Hk.
    rewrite warp_is_local by (simpl; lia).
    unfold warp_local. cbn [vy0 vx0 base_view]. rewrite !Z.add_0_r, !Z.sub_0_r.
    split.
    - intros Hin. assert (E : in_view (base_view st) (fst (nn y x)) (snd (nn y x)) = true).
      { apply in_view_iff. unfold in_source, SH, SW in Hin. simpl. lia. }
      rewrite E. reflexivity.
    - intros Hout. assert (E : in_view (base_view st) (fst (nn y x)) (snd (nn y x)) = false).
      { apply in_view_false. simpl. intros H. apply Hout. unfold in_source, SH, SW. lia. }
      rewrite E. reflexivity.
  Qed.

  (** tile-local coordinates are inside the destination *)
  Lemma tile_local_in_dst j y x : tile_in_range dtl j ->
    0 <= y < vh (tile_view dtl j) -> 0 <= x < vw (tile_view dtl j) ->
    0 <= y + offy dtl (fst j) < offy dtl (nty dtl) /\ 0 <= x + offx dtl (snd j) < offx dtl (ntx dtl) /\
    in_tile dtl j (y + offy dtl (fst j)) (x + offx dtl (snd j)).
  Proof.
    intros (Rjy & Rjx) Hy Hx. simpl in Hy, Hx. destruct dtl_ok as (Hoy & Hox).
    pose proof (axis_mono _ _ Hoy 0 (fst j)). pose proof (axis_mono _ _ Hoy (fst j + 1) (nty dtl)).
    pose proof (axis_mono _ _ Hox 0 (snd j)). pose proof (axis_mono _ _ Hox (snd j + 1) (ntx dtl)).
    destruct Hoy as (_ & Hoy0 & _). destruct Hox as (_ & Hox0 & _). unfold in_tile. lia.
  Qed.

  (** === Theorem A: every chunk equals the corresponding part of the whole-array result === *)
  Theorem chunk_equals_whole (src : list (plane V)) dn sn dt j :
    deps_complete ->
    (dn <> None \/ sn = None \/ is_float dt = false) ->
    tile_in_range dtl j ->
    exists ps,
      chunk src dn sn dt j = Ok ps /\ length ps = length src /\
      forall k dflt y x, (k < length src)%nat ->
        0 <= y < vh (tile_view dtl j) -> 0 <= x < vw (tile_view dtl j) ->
        nth k ps dflt y x = nth k (whole src dn sn dt) dflt (y + offy dtl (fst j)) (x + offx dtl (snd j)).
  Proof.
    intros Hcomp Hcorner Hj.
    pose proof (same_dst_nodata is_float nanN dn sn dt Hcorner) as Edn.
    destruct (d2s j) as [|i0 rest] eqn:Ed.
    - (* constant chunk *)
      exists (repeat (fun _ _ => resolve dn sn dt) (length src)).
      split; [apply const_chunk_pixel; exact Ed|]. split; [apply repeat_length|].
      intros k dflt y x Hk Hy Hx.
      rewrite nth_repeat_lt by exact Hk.
      destruct (tile_local_in_dst j y x Hj Hy Hx) as (Gy & Gx & Ht).
      destruct (whole_pixel src dn sn dt k dflt dflt _ _ Hk Gy Gx) as (_ & Hw).
      rewrite Hw.
      + symmetry. apply rio_fill_is_resolved; assumption.
      + intros Hin. destruct (Hcomp j _ _ Hj Ht Hin) as (i & Hi & _). rewrite Ed in Hi. destruct Hi.
    - destruct (task_chunk_pixel src dn sn dt j) as (ps & E & Hl & Hp); [rewrite Ed; discriminate | exact Hj |].
      exists ps. split; [exact E|]. split; [exact Hl|].
      intros k dflt y x Hk Hy Hx.
      destruct (tile_local_in_dst j y x Hj Hy Hx) as (Gy & Gx & Ht).
      destruct (Hp k dflt dflt y x Hk Hy Hx) as (Hp1 & Hp2).
      destruct (whole_pixel src dn sn dt k dflt dflt _ _ Hk Gy Gx) as (Hw1 & Hw2).
      set (p := nn (y + offy dtl (fst j)) (x + offx dtl (snd j))) in *.
      assert (Hdec : in_source p \/ ~ in_source p) by (unfold in_source; lia).
      destruct Hdec as [Hin | Hout].
      + rewrite Hp1, Hw1; [rewrite Edn; reflexivity | exact Hin | exact Hin | exact (Hcomp j _ _ Hj Ht Hin)].
      + rewrite Hp2, Hw2; [rewrite Edn; reflexivity | exact Hout | exact Hout].
  Qed.

  (** === Theorem B: unreached pixels hold resolve_fill_value in both kinds of chunk ===
      (no completeness needed, no restriction on the nodata combination) *)
  Theorem chunk_unreached_is_fill (src : list (plane V)) dn sn dt j :
    tile_in_range dtl j ->
    exists ps,
      chunk src dn sn dt j = Ok ps /\ length ps = length src /\
      forall k dflt y x, (k < length src)%nat ->
        0 <= y < vh (tile_view dtl j) -> 0 <= x < vw (tile_view dtl j) ->
        (d2s j = [] \/ ~ in_source (nn (y + offy dtl (fst j)) (x + offx dtl (snd j)))) ->
        nth k ps dflt y x = resolve dn sn dt.
  Proof.
    intros Hj. destruct (d2s j) as [|i0 rest] eqn:Ed.
    - exists (repeat (fun _ _ => resolve dn sn dt) (length src)).
      split; [apply const_chunk_pixel; exact Ed|]. split; [apply repeat_length|].
      intros k dflt y x Hk _ _ _. rewrite nth_repeat_lt by exact Hk. reflexivity.
    - destruct (task_chunk_pixel src dn sn dt j) as (ps & E & Hl & Hp); [rewrite Ed; discriminate | exact Hj |].
      exists ps. split; [exact E|]. split; [exact Hl|].
      intros k dflt y x Hk Hy Hx [Hc | Hout]; [discriminate Hc|].
      destruct (Hp k dflt dflt y x Hk Hy Hx) as (_ & Hp2). rewrite Hp2 by exact Hout.
      apply chunk_fill_is_resolved; exact cast_nan.
  Qed.

  (** the in-memory result holds the same value in unreached pixels *)
  Theorem whole_unreached_is_fill (src : list (plane V)) dn sn dt k dflt y x :
    (dn <> None \/ sn = None \/ is_float dt = false) ->
    (k < length src)%nat -> 0 <= y < offy dtl (nty dtl) -> 0 <= x < offx dtl (ntx dtl) ->
    ~ in_source (nn y x) ->
    nth k (whole src dn sn dt) dflt y x = resolve dn sn dt.
  Proof.
    intros Hc Hk Hy Hx Hout.
    destruct (whole_pixel src dn sn dt k dflt dflt y x Hk Hy Hx) as (_ & Hw). rewrite Hw by exact Hout.
    apply rio_fill_is_resolved; assumption.
  Qed.

  (** === Theorem C: the assembled dask array equals the in-memory array everywhere === *)
  Theorem dask_equals_whole (src : list (plane V)) dn sn dt :
    deps_complete ->
    (dn <> None \/ sn = None \/ is_float dt = false) ->
    forall k dflt y x, (k < length src)%nat ->
      0 <= y < offy dtl (nty dtl) -> 0 <= x < offx dtl (ntx dtl) ->
      dask_pixel is_float cast vnan vzero nanN warp true d2s st dtl src dn sn dt dflt k y x
      = Ok (nth k (whole src dn sn dt) dflt y x).
  Proof.
    intros Hcomp Hcorner k dflt y x Hk Hy Hx. unfold dask_pixel.
    destruct dtl_ok as (Hoy & Hox).
    destruct (locate_spec _ _ y Hoy Hy) as (Ry & Ly).
    destruct (locate_spec _ _ x Hox Hx) as (Rx & Lx).
    set (jy := locate (offy dtl) (nty dtl) y) in *. set (jx := locate (offx dtl) (ntx dtl) x) in *.
    destruct (chunk_equals_whole src dn sn dt (jy, jx) Hcomp Hcorner) as (ps & E & _ & Hp).
    { split; simpl; lia. }
    unfold chunk in E. rewrite E. f_equal.
    rewrite Hp; [| exact Hk | simpl; lia | simpl; lia]. simpl. f_equal; lia.
  Qed.

  (** === Theorem D: rasters that do not overlap give an all-fill result, never an error === *)
  Theorem disjoint_all_fill (src : list (plane V)) dn sn dt :
    (forall y x, 0 <= y < offy dtl (nty dtl) -> 0 <= x < offx dtl (ntx dtl) -> ~ in_source (nn y x)) ->
    forall k dflt y x, (k < length src)%nat ->
      0 <= y < offy dtl (nty dtl) -> 0 <= x < offx dtl (ntx dtl) ->
      dask_pixel is_float cast vnan vzero nanN warp true d2s st dtl src dn sn dt dflt k y x
      = Ok (resolve dn sn dt).
  Proof.
    intros Hdis k dflt y x Hk Hy Hx. unfold dask_pixel.
    destruct dtl_ok as (Hoy & Hox).
    destruct (locate_spec _ _ y Hoy Hy) as (Ry & Ly).
    destruct (locate_spec _ _ x Hox Hx) as (Rx & Lx).
    set (jy := locate (offy dtl) (nty dtl) y) in *. set (jx := locate (offx dtl) (ntx dtl) x) in *.
    destruct (chunk_unreached_is_fill src dn sn dt (jy, jx)) as (ps & E & _ & Hp).
    { split; simpl; lia. }
    unfold chunk in E. rewrite E. f_equal.
    apply Hp; [exact Hk | simpl; lia | simpl; lia |]. right. simpl.
    replace (y - offy dtl jy + offy dtl jy) with y by lia.
    replace (x - offx dtl jx + offx dtl jx) with x by lia. apply Hdis; assumption.
  Qed.
End Main.
