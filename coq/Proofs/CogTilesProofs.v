(** Tile enumeration of the COG writer: flat_tile_idx is a bijection, tidx /
    cog_tidx / writer_order enumerate every tile exactly once. *)
From Coq Require Import ZArith List Bool Lia Permutation.
From OG Require Import Base.Result Base.ListSel Model.Roi Model.CogLayout.
Import ListNotations.
Open Scope Z_scope.

Definition in_range (m : meta) (idx : Z * Z * Z) : Prop :=
  let '(s, y, x) := idx in
  0 <= s < num_planes m /\ 0 <= y < fst (chunked m) /\ 0 <= x < snd (chunked m).

Definition wf_meta (m : meta) : Prop :=
  1 <= fst (m_shape m) /\ 1 <= snd (m_shape m) /\ 0 < fst (m_tile m) /\ 0 < snd (m_tile m) /\
  1 <= m_nsamples m.

Lemma ceil_div_pos N n : 1 <= N -> 0 < n -> 1 <= (N + n - 1) / n.
Proof. intros. apply Z.div_le_lower_bound; lia. Qed.

Lemma chunked_pos m : wf_meta m -> 1 <= fst (chunked m) /\ 1 <= snd (chunked m) /\ 1 <= num_planes m.
Proof.
  unfold wf_meta, chunked, num_planes. destruct (m_shape m) as [H W], (m_tile m) as [th tw]. cbn [fst snd].
  intros (A & B & C & D & E). split; [apply ceil_div_pos; lia|]. split; [apply ceil_div_pos; lia|].
  destruct (m_axis m); lia.
Qed.

(** the tiles cover the image: chunked * tile >= shape > (chunked - 1) * tile *)
Lemma chunked_covers m : wf_meta m ->
  (fst (chunked m) - 1) * fst (m_tile m) < fst (m_shape m) <= fst (chunked m) * fst (m_tile m) /\
  (snd (chunked m) - 1) * snd (m_tile m) < snd (m_shape m) <= snd (chunked m) * snd (m_tile m).
Proof.
  unfold wf_meta, chunked. destruct (m_shape m) as [H W], (m_tile m) as [th tw]. cbn [fst snd].
  intros (A & B & C & D & E).
  pose proof (Z.div_mod (H + th - 1) th ltac:(lia)). pose proof (Z.mod_pos_bound (H + th - 1) th C).
  pose proof (Z.div_mod (W + tw - 1) tw ltac:(lia)). pose proof (Z.mod_pos_bound (W + tw - 1) tw D).
  nia.
Qed.

(** * 1. flat_tile_idx *)

Lemma flat_arith_bound ns cy cx s y x :
  0 <= s < ns -> 0 <= y < cy -> 0 <= x < cx ->
  0 <= s * (cy * cx) + y * cx + x < ns * cy * cx.
Proof.
  intros Hs Hy Hx.
  assert (0 <= y * cx) by nia.
  assert (y * cx + x < cy * cx) by nia.
  assert (0 <= s * (cy * cx)) by nia.
  assert (s * (cy * cx) + cy * cx <= ns * cy * cx) by nia.
  lia.
Qed.

Lemma flat_arith_inv cy cx s y x :
  0 <= s -> 0 <= y < cy -> 0 <= x < cx ->
  let t := s * (cy * cx) + y * cx + x in
  t / (cy * cx) = s /\ (t / cx) mod cy = y /\ t mod cx = x.
Proof.
  intros Hs Hy Hx t.
  assert (Hyx : 0 <= y * cx + x < cy * cx) by nia.
  assert (E1 : t / (cy * cx) = s).
  { symmetry. apply (Z.div_unique t (cy * cx) s (y * cx + x)); [left; lia | unfold t; ring]. }
  assert (E2 : t / cx = s * cy + y).
  { symmetry. apply (Z.div_unique t cx (s * cy + y) x); [left; lia | unfold t; ring]. }
  assert (E3 : t mod cx = x).
  { symmetry. apply (Z.mod_unique t cx (s * cy + y) x); [left; lia | unfold t; ring]. }
  split; [exact E1|]. split; [|exact E3].
  rewrite E2. symmetry. apply (Z.mod_unique (s * cy + y) cy s y); [left; lia | ring].
Qed.

Lemma unflat_arith ns cy cx t :
  0 <= t < ns * cy * cx -> 0 < cy -> 0 < cx ->
  let s := t / (cy * cx) in let y := (t / cx) mod cy in let x := t mod cx in
  0 <= s < ns /\ 0 <= y < cy /\ 0 <= x < cx /\ s * (cy * cx) + y * cx + x = t.
Proof.
  intros Ht Hcy Hcx s y x.
  assert (Hp : 0 < cy * cx) by nia.
  pose proof (Z.mod_pos_bound t cx Hcx) as Bx.
  pose proof (Z.mod_pos_bound (t / cx) cy Hcy) as By.
  pose proof (Z.div_mod t cx ltac:(lia)) as D1.
  pose proof (Z.div_mod (t / cx) cy ltac:(lia)) as D2.
  assert (E : t / (cy * cx) = t / cx / cy).
  { rewrite (Z.mul_comm cy cx). rewrite Z.div_div by lia. reflexivity. }
  assert (Hs0 : 0 <= s) by (apply Z.div_pos; lia).
  assert (Hs1 : s < ns).
  { unfold s. apply Z.div_lt_upper_bound; [lia|]. nia. }
  fold x in Bx, D1. fold y in By, D2. unfold s in *. rewrite E in *.
  repeat split; try lia; nia.
Qed.

Lemma flat_tile_idx_ok m idx :
  in_range m idx ->
  exists t, flat_tile_idx m idx = Ok t /\ 0 <= t < num_tiles m /\ unflat m t = idx.
Proof.
  destruct idx as [[s y] x]. unfold in_range, flat_tile_idx, num_tiles, unflat.
  destruct (chunked m) as [cy cx]. cbn [fst snd]. intros (Hs & Hy & Hx).
  destruct ((s <? 0) || (s >=? num_planes m)) eqn:E1; [apply orb_true_iff in E1; lia|].
  destruct ((y <? 0) || (y >=? cy)) eqn:E2; [apply orb_true_iff in E2; lia|].
  destruct ((x <? 0) || (x >=? cx)) eqn:E3; [apply orb_true_iff in E3; lia|].
  eexists; split; [reflexivity|]. split.
  - apply flat_arith_bound; lia.
  - destruct (flat_arith_inv cy cx s y x ltac:(lia) Hy Hx) as (A & B & C).
    cbn zeta in A, B, C. rewrite A, B, C. reflexivity.
Qed.

Lemma flat_tile_idx_err m idx :
  ~ in_range m idx -> flat_tile_idx m idx = Err EIndex.
Proof.
  destruct idx as [[s y] x]. unfold in_range, flat_tile_idx.
  destruct (chunked m) as [cy cx]. cbn [fst snd]. intros Hn.
  destruct ((s <? 0) || (s >=? num_planes m)) eqn:E1; [reflexivity|].
  destruct ((y <? 0) || (y >=? cy)) eqn:E2; [reflexivity|].
  destruct ((x <? 0) || (x >=? cx)) eqn:E3; [reflexivity|].
  apply orb_false_iff in E1, E2, E3. exfalso. apply Hn. lia.
Qed.

Lemma flat_tile_idx_inv m idx t :
  flat_tile_idx m idx = Ok t -> in_range m idx /\ 0 <= t < num_tiles m /\ unflat m t = idx.
Proof.
  intros E.
  assert (R : in_range m idx).
  { destruct idx as [[s y] x]. unfold in_range, flat_tile_idx in *.
    destruct (chunked m) as [cy cx]. cbn [fst snd].
    destruct ((s <? 0) || (s >=? num_planes m)) eqn:E1; [discriminate|].
    destruct ((y <? 0) || (y >=? cy)) eqn:E2; [discriminate|].
    destruct ((x <? 0) || (x >=? cx)) eqn:E3; [discriminate|].
    apply orb_false_iff in E1, E2, E3. lia. }
  destruct (flat_tile_idx_ok m idx R) as (t' & E' & B & U).
  rewrite E in E'. inversion E'; subst. auto.
Qed.

Lemma flat_tile_idx_inj m a b t :
  flat_tile_idx m a = Ok t -> flat_tile_idx m b = Ok t -> a = b.
Proof.
  intros Ha Hb. apply flat_tile_idx_inv in Ha as (_ & _ & Ua). apply flat_tile_idx_inv in Hb as (_ & _ & Ub).
  congruence.
Qed.

Lemma flat_tile_idx_surj m t :
  wf_meta m -> 0 <= t < num_tiles m ->
  in_range m (unflat m t) /\ flat_tile_idx m (unflat m t) = Ok t.
Proof.
  intros Hwf Ht. unfold num_tiles in Ht. apply chunked_pos in Hwf as (Wy & Wx & _).
  assert (R : in_range m (unflat m t) /\
              (let '(s, y, x) := unflat m t in s * (fst (chunked m) * snd (chunked m)) + y * snd (chunked m) + x) = t).
  { unfold unflat, in_range. destruct (chunked m) as [cy cx]. cbn [fst snd] in *.
    assert (0 < cy /\ 0 < cx) as [Hcy Hcx] by lia.
    destruct (unflat_arith (num_planes m) cy cx t Ht Hcy Hcx) as (A & B & C & D). cbn zeta in *.
    repeat split; lia. }
  destruct R as (R & E). split; [exact R|].
  destruct (flat_tile_idx_ok m _ R) as (t' & E' & _ & _). rewrite E'. f_equal.
  destruct (unflat m t) as [[s y] x]. unfold flat_tile_idx in E'.
  destruct (chunked m) as [cy cx]. cbn [fst snd] in *.
  destruct ((s <? 0) || (s >=? num_planes m)); [discriminate|].
  destruct ((y <? 0) || (y >=? cy)); [discriminate|].
  destruct ((x <? 0) || (x >=? cx)); [discriminate|].
  inversion E'; subst. reflexivity.
Qed.

(** * 2. enumerations *)

Lemma in_zrange n z : In z (zrange n) <-> 0 <= z < n.
Proof.
  unfold zrange. rewrite in_map_iff. split.
  - intros (k & <- & Hk). apply in_seq in Hk. lia.
  - intros Hz. exists (Z.to_nat z). split; [lia|]. apply in_seq. lia.
Qed.

Lemma NoDup_zrange n : NoDup (zrange n).
Proof.
  unfold zrange. apply FinFun.Injective_map_NoDup; [|apply seq_NoDup].
  intros a b H. lia.
Qed.

Lemma NoDup_app_intro {A} (l1 l2 : list A) :
  NoDup l1 -> NoDup l2 -> (forall x, In x l1 -> In x l2 -> False) -> NoDup (l1 ++ l2).
Proof.
  induction l1 as [|a l1 IH]; intros H1 H2 Hd; simpl; auto.
  inversion H1; subst. constructor.
  - intros Hin. apply in_app_or in Hin as [Hin | Hin]; [contradiction|]. apply (Hd a); [left; auto | auto].
  - apply IH; auto. intros x Hx; apply Hd; right; auto.
Qed.

Lemma NoDup_flat_map {A B} (f : A -> list B) (l : list A) :
  NoDup l -> (forall a, In a l -> NoDup (f a)) ->
  (forall a b x, In a l -> In b l -> In x (f a) -> In x (f b) -> a = b) ->
  NoDup (flat_map f l).
Proof.
  induction l as [|a l IH]; intros Hnd Hf Hdisj; simpl; [constructor|].
  inversion Hnd as [|? ? Hnotin Hnd']; subst.
  apply NoDup_app_intro.
  - apply Hf. left; reflexivity.
  - apply IH; auto.
    + intros; apply Hf; right; auto.
    + intros a' b x Ha Hb; apply Hdisj; right; auto.
  - intros x Hx Hx'. apply in_flat_map in Hx' as (b & Hb & Hxb).
    assert (a = b) by (apply (Hdisj a b x); [left; auto | right; auto | auto | auto]).
    subst. contradiction.
Qed.

Lemma in_tidx_plane m s idx :
  In idx (tidx_plane m s) <->
  (let '(s', y, x) := idx in s' = s /\ 0 <= y < fst (chunked m) /\ 0 <= x < snd (chunked m)).
Proof.
  unfold tidx_plane. destruct (chunked m) as [cy cx]. cbn [fst snd].
  rewrite in_flat_map. destruct idx as [[s' y] x]. split.
  - intros (y0 & Hy & Hin). apply in_map_iff in Hin as (x0 & E & Hx). inversion E; subst.
    apply in_zrange in Hy, Hx. auto.
  - intros (-> & Hy & Hx). exists y. split; [apply in_zrange; auto|].
    apply in_map_iff. exists x. split; [reflexivity | apply in_zrange; auto].
Qed.

Lemma NoDup_tidx_plane m s : NoDup (tidx_plane m s).
Proof.
  unfold tidx_plane. destruct (chunked m) as [cy cx].
  apply NoDup_flat_map.
  - apply NoDup_zrange.
  - intros y _. apply FinFun.Injective_map_NoDup; [|apply NoDup_zrange].
    intros a b H; inversion H; auto.
  - intros a b x _ _ Ha Hb. apply in_map_iff in Ha as (? & <- & _). apply in_map_iff in Hb as (? & E & _).
    inversion E; auto.
Qed.

Lemma in_tidx m idx : In idx (tidx m) <-> in_range m idx.
Proof.
  unfold tidx. rewrite in_flat_map. destruct idx as [[s y] x]. unfold in_range. split.
  - intros (s0 & Hs & Hin). apply in_zrange in Hs. apply in_tidx_plane in Hin as (-> & Hy & Hx). auto.
  - intros (Hs & Hy & Hx). exists s. split; [apply in_zrange; auto|]. apply in_tidx_plane. auto.
Qed.

Lemma NoDup_tidx m : NoDup (tidx m).
Proof.
  unfold tidx. apply NoDup_flat_map.
  - apply NoDup_zrange.
  - intros; apply NoDup_tidx_plane.
  - intros a b [[s y] x] _ _ Ha Hb. apply in_tidx_plane in Ha as (-> & _). apply in_tidx_plane in Hb as (-> & _).
    reflexivity.
Qed.

(** tiles of a multi-level image *)
Definition valid_tile (mm : list meta) (t : Z * Z * Z * Z) : Prop :=
  let '(i, p, y, x) := t in
  0 <= i /\ exists m, nth_error mm (Z.to_nat i) = Some m /\ in_range m (p, y, x).

Lemma in_enum_from {A} (l : list A) : forall k i a,
  In (i, a) (enum_from k l) <-> k <= i /\ nth_error l (Z.to_nat (i - k)) = Some a.
Proof.
  induction l as [|b l IH]; intros k i a; simpl.
  - split; [tauto|]. intros (_ & H). destruct (Z.to_nat (i - k)); discriminate.
  - rewrite IH. split.
    + intros [E | (Hk & Hn)].
      * inversion E; subst. rewrite Z.sub_diag. simpl. split; [lia | reflexivity].
      * split; [lia|]. replace (Z.to_nat (i - k)) with (S (Z.to_nat (i - (k + 1)))) by lia. exact Hn.
    + intros (Hk & Hn). destruct (Z.eq_dec i k) as [->|Hne].
      * rewrite Z.sub_diag in Hn. simpl in Hn. inversion Hn; subst. left; reflexivity.
      * right. split; [lia|].
        replace (Z.to_nat (i - k)) with (S (Z.to_nat (i - (k + 1)))) in Hn by lia. exact Hn.
Qed.

Lemma NoDup_enum_from {A} (l : list A) : forall k, NoDup (map fst (enum_from k l)).
Proof.
  induction l as [|b l IH]; intros k; simpl; constructor; auto.
  intros Hin. apply in_map_iff in Hin as ([i a] & E & Hin). simpl in E; subst.
  apply in_enum_from in Hin. lia.
Qed.

Lemma NoDup_enum_from' {A} (l : list A) k : NoDup (enum_from k l).
Proof. eapply NoDup_map_inv. apply NoDup_enum_from. Qed.

Lemma in_tag_level i l t :
  In t (tag_level i l) <-> (let '(i', p, y, x) := t in i' = i /\ In (p, y, x) l).
Proof.
  unfold tag_level. rewrite in_map_iff. destruct t as [[[i' p] y] x]. split.
  - intros ([[p0 y0] x0] & E & Hin). inversion E; subst. auto.
  - intros (-> & Hin). exists (p, y, x). auto.
Qed.

Lemma NoDup_tag_level i l : NoDup l -> NoDup (tag_level i l).
Proof.
  intros H. unfold tag_level. apply FinFun.Injective_map_NoDup; auto.
  intros [[a b] c] [[a' b'] c'] E. inversion E; reflexivity.
Qed.

Lemma in_cog_tidx mm t : In t (cog_tidx mm) <-> valid_tile mm t.
Proof.
  unfold cog_tidx, valid_tile. rewrite in_flat_map. destruct t as [[[i p] y] x]. split.
  - intros ([i0 m] & Hin & Ht). apply in_rev in Hin. apply in_enum_from in Hin as (Hk & Hn).
    cbn [fst snd] in Ht. apply in_tag_level in Ht as (-> & Ht). apply in_tidx in Ht.
    rewrite Z.sub_0_r in Hn. split; [lia|]. exists m. auto.
  - intros (Hi & m & Hn & Hr). exists (i, m). split.
    + apply -> in_rev. apply in_enum_from. rewrite Z.sub_0_r. auto.
    + cbn [fst snd]. apply in_tag_level. split; [reflexivity | apply in_tidx; exact Hr].
Qed.

Lemma NoDup_cog_tidx mm : NoDup (cog_tidx mm).
Proof.
  unfold cog_tidx. apply NoDup_flat_map.
  - apply NoDup_rev. apply NoDup_enum_from'.
  - intros [i m] _. apply NoDup_tag_level, NoDup_tidx.
  - intros [i m] [i' m'] [[[j p] y] x] Ha Hb Hx Hx'. cbn [fst snd] in *.
    apply in_tag_level in Hx as (-> & _). apply in_tag_level in Hx' as (-> & _).
    apply in_rev in Ha, Hb. apply in_enum_from in Ha as (_ & Ea). apply in_enum_from in Hb as (_ & Eb).
    congruence.
Qed.

(** * 3. the writer's own order *)

Definition uniform_planes (mm : list meta) : Prop :=
  forall m0 m, hd_error mm = Some m0 -> In m mm -> num_planes m = num_planes m0.

Lemma in_enum_from_In {A} (l : list A) k i a : In (i, a) (enum_from k l) -> In a l.
Proof. intros H. apply in_enum_from in H as (_ & H). eapply nth_error_In; eauto. Qed.

Lemma in_bags_concat mm t :
  uniform_planes mm -> In t (concat (bags mm)) <-> valid_tile mm t.
Proof.
  intros U. destruct mm as [|m0 mm']; [simpl; unfold valid_tile; destruct t as [[[i p] y] x];
    split; [tauto | intros (_ & m & H & _); destruct (Z.to_nat i); discriminate]|].
  unfold bags. set (mm := m0 :: mm') in *.
  rewrite in_concat. unfold valid_tile. destruct t as [[[i p] y] x]. split.
  - intros (bag & Hb & Ht). apply in_flat_map in Hb as ([i0 m] & Hin & Hb).
    apply in_map_iff in Hb as (s & <- & Hs). cbn [fst snd] in Ht.
    apply in_tag_level in Ht as (-> & Ht). apply in_tidx_plane in Ht as (-> & Hy & Hx).
    apply in_zrange in Hs.
    pose proof (in_enum_from_In _ _ _ _ Hin) as HinM.
    apply in_enum_from in Hin as (Hk & Hn). rewrite Z.sub_0_r in Hn.
    split; [lia|]. exists m. split; [exact Hn|]. unfold in_range.
    rewrite (U m0 m eq_refl HinM). auto.
  - intros (Hi & m & Hn & (Hs & Hy & Hx)).
    assert (HinM : In m mm) by (eapply nth_error_In; eauto).
    rewrite (U m0 m eq_refl HinM) in Hs.
    exists (tag_level i (tidx_plane m p)). split.
    + apply in_flat_map. exists (i, m). split; [apply in_enum_from; rewrite Z.sub_0_r; auto|].
      apply in_map_iff. exists p. split; [reflexivity | apply in_zrange; exact Hs].
    + apply in_tag_level. split; [reflexivity|]. apply in_tidx_plane. auto.
Qed.

Lemma concat_flat_map_map {A B C} (g : A -> B -> list C) (h : A -> list B) (l : list A) :
  concat (flat_map (fun a => map (g a) (h a)) l) = flat_map (fun a => flat_map (g a) (h a)) l.
Proof.
  induction l as [|a l IH]; simpl; [reflexivity|].
  rewrite concat_app, IH. f_equal. rewrite flat_map_concat_map. reflexivity.
Qed.

Lemma NoDup_bags_concat mm : NoDup (concat (bags mm)).
Proof.
  destruct mm as [|m0 mm']; [constructor|]. unfold bags. set (mm := m0 :: mm').
  rewrite (concat_flat_map_map (fun im s => tag_level (fst im) (tidx_plane (snd im) s))
                               (fun _ => zrange (num_planes m0))).
  apply NoDup_flat_map.
  - apply NoDup_enum_from'.
  - intros [i m] _. cbn [fst snd]. apply NoDup_flat_map.
    + apply NoDup_zrange.
    + intros s _. apply NoDup_tag_level, NoDup_tidx_plane.
    + intros a b [[[j p] y] x] _ _ Ha Hb. apply in_tag_level in Ha as (_ & Ha). apply in_tag_level in Hb as (_ & Hb).
      apply in_tidx_plane in Ha as (-> & _). apply in_tidx_plane in Hb as (-> & _). reflexivity.
  - intros [i m] [i' m'] [[[j p] y] x] Ha Hb Hx Hx'. cbn [fst snd] in *.
    apply in_flat_map in Hx as (s & _ & Hx). apply in_flat_map in Hx' as (s' & _ & Hx').
    apply in_tag_level in Hx as (-> & _). apply in_tag_level in Hx' as (-> & _).
    apply in_enum_from in Ha as (_ & Ea). apply in_enum_from in Hb as (_ & Eb). congruence.
Qed.

Lemma Permutation_concat_rev {A} (ll : list (list A)) : Permutation (concat (rev ll)) (concat ll).
Proof.
  induction ll as [|a ll IH]; simpl; [constructor|].
  rewrite concat_app. simpl. rewrite app_nil_r.
  eapply Permutation_trans; [apply Permutation_app_comm|]. apply Permutation_app_head. exact IH.
Qed.

Lemma writer_order_perm mm :
  uniform_planes mm -> Permutation (writer_order mm) (cog_tidx mm).
Proof.
  intros U. unfold writer_order.
  eapply Permutation_trans; [apply Permutation_concat_rev|].
  apply NoDup_Permutation; [apply NoDup_bags_concat | apply NoDup_cog_tidx|].
  intros t. rewrite in_bags_concat by exact U. rewrite in_cog_tidx. reflexivity.
Qed.

(** overview-first: the writer's order is (all tiles of levels >= 1) ++ (tiles of level 0) *)
Definition lvl (t : Z * Z * Z * Z) : Z := let '(i, _, _, _) := t in i.

Lemma writer_order_split mm :
  exists ovr full,
    writer_order mm = ovr ++ full /\
    (forall t, In t ovr -> 1 <= lvl t) /\ (forall t, In t full -> lvl t = 0).
Proof.
  destruct mm as [|m0 mm']; [exists [], []; simpl; repeat split; intros; contradiction|].
  unfold writer_order, bags. cbn [enum_from flat_map].
  set (f := fun im : Z * meta => map (fun s => tag_level (fst im) (tidx_plane (snd im) s)) (zrange (num_planes m0))).
  rewrite rev_app_distr, concat_app.
  exists (concat (rev (flat_map f (enum_from (0 + 1) mm')))), (concat (rev (f (0, m0)))).
  split; [reflexivity|]. split.
  - intros t Ht. apply in_concat in Ht as (bag & Hb & Ht). apply in_rev in Hb.
    apply in_flat_map in Hb as ([i m] & Hin & Hb). unfold f in Hb.
    apply in_map_iff in Hb as (s & <- & _). cbn [fst snd] in Ht.
    destruct t as [[[j p] y] x]. apply in_tag_level in Ht as (-> & _).
    apply in_enum_from in Hin as (Hk & _). simpl. lia.
  - intros t Ht. apply in_concat in Ht as (bag & Hb & Ht). apply in_rev in Hb. unfold f in Hb.
    apply in_map_iff in Hb as (s & <- & _). cbn [fst snd] in Ht.
    destruct t as [[[j p] y] x]. apply in_tag_level in Ht as (-> & _). reflexivity.
Qed.
