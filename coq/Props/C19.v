(** Property C19 — value objects: equality, hashing, pickling, dask tokens and
    the CRS / transformer caches are coherent.

    Only statements, each closed by [exact] of a lemma from Proofs/, followed
    by [Print Assumptions].

    Part (a): [W : oracle] are the CPython-string / pyproj oracles, [contracts W]
    their contracts (Model/CrsCache.v); [run W init h] is the state of the
    module after an arbitrary history [h] of CRS constructions from any kind of
    specification, [to_epsg()] calls, [==], deletions, garbage collections,
    pyproj-object creations and transformer requests (operations that raise
    are skipped), with object ids chosen by an arbitrary allocator that may
    reuse the id of any dead object.
    Part (b): per value type, [*_eqb] is [==], [*_hashkey] what [hash()] hashes,
    [*_token] what the dask token is computed from, [*_pickle] the unpickled
    clone; [crs_laws W D reload] are the laws of CRS instances of one state
    (theorem [C19_crs_laws_from_contracts] derives them from the contracts). *)
From Coq Require Import ZArith QArith List Bool.
From OG Require Import Base.Result Model.CrsCache Model.ValueObjs
  Proofs.CrsCacheProofs Proofs.CrsHistoryProofs Proofs.ValueObjsProofs Proofs.C19WitnessProofs.
Import ListNotations.
Open Scope Z_scope.

(** * (a) caches *)

(** after any history: live objects have distinct ids, everything the caches and the user's
    variables reference is alive with the recorded content, and every id used in a
    transformer-cache key belongs to an object held by [_crs_cache] *)
Theorem C19_cache_invariant : forall W h, inv (run W init h).
Proof. exact reachable_inv. Qed.
Print Assumptions C19_cache_invariant.

Theorem C19_transformer_keys_pinned :
  forall W h i j xy d, In ((i, j, xy), d) (tcache (run W init h)) ->
    snd d = xy /\ In (i, fst (fst d)) (heap (run W init h)) /\ In (j, snd (fst d)) (heap (run W init h)) /\
    pinned (run W init h) i /\ pinned (run W init h) j.
Proof. intros W h. exact (inv_tc _ (reachable_inv W h)). Qed.
Print Assumptions C19_transformer_keys_pinned.

(** an object held by [_crs_cache] is never freed: whatever happens later it is alive under the
    same id with the same content (so its id cannot be given to another object) *)
Theorem C19_pinned_objects_persist :
  forall W h h' id s, pinned (run W init h) id -> In (id, s) (heap (run W init h)) ->
    In (id, s) (heap (run W (run W init h) h')) /\ pinned (run W (run W init h) h') id /\
    NoDup (map fst (heap (run W (run W init h) h'))).
Proof.
  intros W h h' id s P H. destruct (run_pinned W h' _ id s (reachable_inv W h) P H) as (A & B).
  split; [exact A|]. split; [exact B|]. exact (inv_nodup _ (run_inv W h' _ (reachable_inv W h))).
Qed.
Print Assumptions C19_pinned_objects_persist.

Theorem C19_transformer_ids_not_reusable :
  forall W h i j xy d srs, In ((i, j, xy), d) (tcache (run W init h)) ->
    alloc (run W init h) i srs = Err (EAssert 1) /\ alloc (run W init h) j srs = Err (EAssert 1).
Proof. intros W h i j xy d srs. exact (transformer_ids_not_reusable (run W init h) i j xy d srs (reachable_inv W h)). Qed.
Print Assumptions C19_transformer_ids_not_reusable.

(** the transformer handed out for (a, b, always_xy) after any history — cached or new — was built
    for exactly the two pyproj objects a and b point to *)
Theorem C19_transformer_for_exact_pair :
  forall W h i j xy a b st' d,
    get_var (run W init h) i = Ok a -> get_var (run W init h) j = Ok b ->
    step W (run W init h) (OpTransformer i j xy) = Ok (st', OTr d) ->
    d = (c_srs a, c_srs b, xy) /\ In (c_id a, c_srs a) (heap (run W init h)) /\ In (c_id b, c_srs b) (heap (run W init h)).
Proof.
  intros W h i j xy a b st' d Ha Hb H. split.
  - exact (transformer_exact W _ i j xy a b st' d (reachable_inv W h) Ha Hb H).
  - split; [exact (proj1 (inv_vars _ (reachable_inv W h) a (get_var_In _ _ _ Ha)))
           | exact (proj1 (inv_vars _ (reachable_inv W h) b (get_var_In _ _ _ Hb)))].
Qed.
Print Assumptions C19_transformer_for_exact_pair.

(** * (a) string form / hash / token of CRS(spec) and the history *)

(** with nothing cached, CRS(spec) has the canonical string form of the object pyproj builds *)
Theorem C19_crs_str_fresh :
  forall W s nid st1 v srs,
    closed s = true -> spec_srs W s = Some srs -> crs_new W init s nid = Ok (st1, v) ->
    c_str v = fresh_str W srs /\ crs_hashkey v = fresh_str W srs /\ crs_token v = fresh_str W srs.
Proof. intros W s nid st1 v srs C S H. pose proof (crs_str_fresh W s nid st1 v srs C S H) as E. auto. Qed.
Print Assumptions C19_crs_str_fresh.

(** FULL STATEMENT REFUTED (open finding crs-history:pyproj-vs-wkt-key, F15): there are histories after which
    CRS(spec) has another string form (hence hash and token) than in a fresh interpreter *)
Theorem C19_crs_str_history_independent_refuted :
  exists W, contracts W /\ exists h s n n' st st' v v',
    closed s = true /\ crs_new W (run W init h) s n = Ok (st, v) /\ crs_new W init s n' = Ok (st', v') /\
    c_str v <> c_str v'.
Proof. exact history_dependence_witness. Qed.
Print Assumptions C19_crs_str_history_independent_refuted.

(** PARTIAL: history independence holds whenever no cached key that CPython's dict treats as equal to the
    key of [spec] carries another string form.  (Missing for the full statement: a pyproj object used as
    key is equal, as a dict key, to its own WKT text and to pyproj-equal objects of another spelling.) *)
Theorem C19_crs_str_history_independent_partial :
  forall W h s nid st1 v srs,
    closed s = true -> spec_srs W s = Some srs ->
    crs_new W (run W init h) s nid = Ok (st1, v) ->
    coherent_for W (run W init h) (make_key W (spec_mspec s nid srs)) (fresh_str W srs) ->
    c_str v = fresh_str W srs.
Proof. intros W h s nid st1 v srs. exact (crs_str_partial W (run W init h) s nid st1 v srs). Qed.
Print Assumptions C19_crs_str_history_independent_partial.

(** ... in particular, unconditionally, for EPSG codes and strings in any spelling after histories made of
    integer / string / CRS-copy / pickle constructions, to_epsg, ==, del, gc, pyproj-object creation and
    transformer requests (everything except handing pyproj objects or PROJJSON dicts to CRS()) *)
Theorem C19_crs_str_history_independent_string_specs :
  forall W, contracts W -> forall h s nid nid' st1 st1' v v',
    forallb strkey_op h = true -> (exists n, s = SpInt n) \/ (exists t, s = SpStr t) ->
    crs_new W (run W init h) s nid = Ok (st1, v) -> crs_new W init s nid' = Ok (st1', v') ->
    c_str v = c_str v' /\ crs_hashkey v = crs_hashkey v' /\ crs_token v = crs_token v'.
Proof.
  intros W K h s nid nid' st1 st1' v v' F Hs H H'.
  pose proof (crs_str_history_independent_strings W K h s nid nid' st1 st1' v v' F Hs H H') as E. auto.
Qed.
Print Assumptions C19_crs_str_history_independent_string_specs.

(** * (a) lossless-equivalent specifications *)

(** two closed specifications (EPSG integer, string in any letter case, WKT, PROJJSON dict, pyproj object)
    denoting pyproj-equal objects give == instances, whatever was constructed, dropped or collected before
    either construction, and whether or not to_epsg() was called on either *)
Theorem C19_lossless_specs_equal :
  forall W, contracts W -> forall h1 h2 s1 s2 n1 n2 st1 st2 v1 v2 r1 r2,
    closed s1 = true -> closed s2 = true ->
    crs_new W (run W init h1) s1 n1 = Ok (st1, v1) -> crs_new W (run W init h2) s2 n2 = Ok (st2, v2) ->
    spec_srs W s1 = Some r1 -> spec_srs W s2 = Some r2 -> o_peq W r1 r2 = true ->
    crs_eq W v1 v2 = true /\ crs_eq W (to_epsg W v1) v2 = true /\ crs_eq W v1 (to_epsg W v2) = true /\
    crs_eq W (to_epsg W v1) (to_epsg W v2) = true.
Proof. exact lossless_specs_equal. Qed.
Print Assumptions C19_lossless_specs_equal.

(** CRS(c) and an unpickled copy of c are == c *)
Theorem C19_crs_copy_and_pickle_equal :
  forall W, contracts W -> forall h i v nid st1 v' s,
    get_var (run W init h) i = Ok v -> s = SpCrs i \/ s = SpPickle i ->
    crs_new W (run W init h) s nid = Ok (st1, v') ->
    crs_eq W v' v = true /\ crs_eq W v v' = true.
Proof. exact copy_and_pickle_equal. Qed.
Print Assumptions C19_crs_copy_and_pickle_equal.

(** PARTIAL (same open finding): the unpickled copy has the same string form / hash / token when no aliasing
    key with another string form is cached *)
Theorem C19_crs_pickle_same_token_partial :
  forall W, contracts W -> forall h i v nid st1 v',
    get_var (run W init h) i = Ok v -> crs_new W (run W init h) (SpPickle i) nid = Ok (st1, v') ->
    coherent_for W (run W init h) (make_key W (MStr (c_str v))) (c_str v) ->
    c_str v' = c_str v.
Proof.
  intros W K h i v nid st1 v'. exact (pickle_str_partial W K (run W init h) i v nid st1 v' (run_good W K h _ (good_init W))).
Qed.
Print Assumptions C19_crs_pickle_same_token_partial.

(** the instances of a reachable state satisfy the CRS laws used in part (b): [==] on them is exactly
    pyproj equality of the objects they point to *)
Theorem C19_reachable_crs_in_domain :
  forall W, contracts W -> forall h v, In (Some v) (vars (run W init h)) -> Dcrs W (hfun (heap (run W init h))) v.
Proof. exact reachable_vars_in_D. Qed.
Print Assumptions C19_reachable_crs_in_domain.

Theorem C19_crs_eq_is_pyproj_eq :
  forall W, contracts W -> forall Hp a b, Dcrs W Hp a -> Dcrs W Hp b ->
    (crs_eq W a b = true <-> o_peq W (c_srs a) (c_srs b) = true).
Proof. exact Dcrs_iff. Qed.
Print Assumptions C19_crs_eq_is_pyproj_eq.

Theorem C19_crs_laws_from_contracts :
  forall W, contracts W -> forall Hp reload,
    (forall v, Dcrs W Hp v -> Dcrs W Hp (reload v) /\ c_str (reload v) = c_str v) ->
    crs_laws W (Dcrs W Hp) reload.
Proof. exact crs_laws_from_contracts. Qed.
Print Assumptions C19_crs_laws_from_contracts.

(** the unrepaired [CRS.__eq__] changed its answer when to_epsg() was called and was not transitive
    (repaired in the repo branch; kept as the reason for the repair) *)
Theorem C19_crs_eq_before_repair_refuted :
  exists W, contracts W /\ exists h a a0 b c,
    get_var (run W init h) 0 = Ok a0 /\ get_var (run W init (h ++ [OpToEpsg 0%nat])) 0 = Ok a /\
    get_var (run W init h) 1 = Ok b /\ get_var (run W init h) 2 = Ok c /\
    crs_eq_v0 W a0 b = false /\ crs_eq_v0 W a b = true /\
    crs_eq_v0 W c a = true /\ crs_eq_v0 W c b = false /\
    crs_eq W a0 b = false /\ crs_eq W a b = false.
Proof. exact eq_v0_witness. Qed.
Print Assumptions C19_crs_eq_before_repair_refuted.

(** * (b) per type: == is an equivalence; equal tokens imply ==; unpickled clones are == with the same token *)

Theorem C19_crs_value_laws :
  forall W D reload, crs_laws W D reload ->
    (forall a, D a -> crs_eq W a a = true) /\
    (forall a b, D a -> D b -> crs_eq W a b = true -> crs_eq W b a = true) /\
    (forall a b c, D a -> D b -> D c -> crs_eq W a b = true -> crs_eq W b c = true -> crs_eq W a c = true) /\
    (forall a b, D a -> D b -> crs_token a = crs_token b -> crs_eq W a b = true) /\
    (forall a, D a -> D (reload a) /\ crs_eq W (reload a) a = true /\ crs_eq W a (reload a) = true /\
                      crs_token (reload a) = crs_token a).
Proof. exact crs_value_laws. Qed.
Print Assumptions C19_crs_value_laws.

(** FULL STATEMENT REFUTED (open finding crs-eq-hash:epsg-vs-wkt, F16): equal CRS instances in different
    spellings have different hash keys, and so have the GeoBoxes / BoundingBoxes built on them *)
Theorem C19_crs_eq_implies_hash_refuted :
  exists W, contracts W /\ exists h a b,
    get_var (run W init h) 0 = Ok a /\ get_var (run W init h) 1 = Ok b /\
    crs_eq W a b = true /\ crs_hashkey a <> crs_hashkey b /\
    (forall shape A, geobox_eqb W (mkGeoBox shape A (Some a)) (mkGeoBox shape A (Some b)) = true /\
                     geobox_hashkey (mkGeoBox shape A (Some a)) <> geobox_hashkey (mkGeoBox shape A (Some b))) /\
    (forall box, bbox_eqb W (mkBBox box (Some a)) (mkBBox box (Some b)) = true /\
                 bbox_hashkey (mkBBox box (Some a)) <> bbox_hashkey (mkBBox box (Some b))).
Proof. exact eq_hash_witness. Qed.
Print Assumptions C19_crs_eq_implies_hash_refuted.

(** PARTIAL: on instances spelled as a single EPSG code ([Depsg]: the string form is "EPSG:" followed by a
    non-zero code), == implies equal hash keys.  (Missing: instances whose string form is a WKT / PROJJSON /
    PROJ text or a compound "EPSG:h+v" definition.) *)
Theorem C19_crs_eq_implies_hash_partial :
  forall W, contracts W -> forall Hp a b, Depsg W Hp a -> Depsg W Hp b -> crs_eq W a b = true -> crs_hashkey a = crs_hashkey b.
Proof. exact hash_dom_epsg. Qed.
Print Assumptions C19_crs_eq_implies_hash_partial.

Theorem C19_bbox_laws :
  forall W D reload, crs_laws W D reload ->
    (forall a, bbox_ok D a -> bbox_eqb W a a = true) /\
    (forall a b, bbox_ok D a -> bbox_ok D b -> bbox_eqb W a b = true -> bbox_eqb W b a = true) /\
    (forall a b c, bbox_ok D a -> bbox_ok D b -> bbox_ok D c -> bbox_eqb W a b = true -> bbox_eqb W b c = true -> bbox_eqb W a c = true) /\
    (forall a b, bbox_ok D a -> bbox_ok D b -> bbox_token a = bbox_token b -> bbox_eqb W a b = true) /\
    (forall a, bbox_ok D a -> bbox_ok D (bbox_pickle reload a) /\ bbox_eqb W (bbox_pickle reload a) a = true /\
                            bbox_eqb W a (bbox_pickle reload a) = true /\ bbox_token (bbox_pickle reload a) = bbox_token a).
Proof. exact bbox_laws. Qed.
Print Assumptions C19_bbox_laws.

(** PARTIAL (F16): for CRS components from a class [Dh] of instances on which == implies the same spelling *)
Theorem C19_bbox_eq_implies_hash_partial :
  forall W (Dh : crsv -> Prop) a b, hash_dom W Dh ->
    match bb_crs a with Some c => Dh c | None => True end -> match bb_crs b with Some c => Dh c | None => True end ->
    bbox_eqb W a b = true -> bbox_hashkey a = bbox_hashkey b.
Proof. intros W Dh a b. exact (bbox_hash W Dh a b). Qed.
Print Assumptions C19_bbox_eq_implies_hash_partial.

Theorem C19_geometry_laws :
  forall W D reload, crs_laws W D reload ->
  forall (G : Type) (geq : G -> G -> bool) (gjson : G -> Z) (gload : Z -> G), geom_laws geq gjson gload ->
    (forall a, geom_ok D G a -> geom_eqb W G geq a a = true) /\
    (forall a b, geom_ok D G a -> geom_ok D G b -> geom_eqb W G geq a b = true -> geom_eqb W G geq b a = true) /\
    (forall a b c, geom_ok D G a -> geom_ok D G b -> geom_ok D G c ->
                   geom_eqb W G geq a b = true -> geom_eqb W G geq b c = true -> geom_eqb W G geq a c = true) /\
    (forall a b, geom_ok D G a -> geom_ok D G b -> geom_token G gjson a = geom_token G gjson b -> geom_eqb W G geq a b = true) /\
    (forall a, geom_ok D G a -> geom_ok D G (geom_pickle reload G gjson gload a) /\
                              geom_eqb W G geq (geom_pickle reload G gjson gload a) a = true /\
                              geom_eqb W G geq a (geom_pickle reload G gjson gload a) = true /\
                              geom_token G gjson (geom_pickle reload G gjson gload a) = geom_token G gjson a).
Proof. exact geom_laws_thm. Qed.
Print Assumptions C19_geometry_laws.

Theorem C19_geobox_laws :
  forall W D reload, crs_laws W D reload ->
    (forall a, geobox_ok D a -> geobox_eqb W a a = true) /\
    (forall a b, geobox_ok D a -> geobox_ok D b -> geobox_eqb W a b = true -> geobox_eqb W b a = true) /\
    (forall a b c, geobox_ok D a -> geobox_ok D b -> geobox_ok D c -> geobox_eqb W a b = true -> geobox_eqb W b c = true -> geobox_eqb W a c = true) /\
    (forall a b, geobox_ok D a -> geobox_ok D b -> geobox_token a = geobox_token b -> geobox_eqb W a b = true) /\
    (forall a, geobox_ok D a -> geobox_ok D (geobox_pickle reload a) /\ geobox_eqb W (geobox_pickle reload a) a = true /\
                              geobox_eqb W a (geobox_pickle reload a) = true /\ geobox_token (geobox_pickle reload a) = geobox_token a).
Proof. exact geobox_laws. Qed.
Print Assumptions C19_geobox_laws.

Theorem C19_geobox_eq_implies_hash_partial :
  forall W (Dh : crsv -> Prop) a b, hash_dom W Dh ->
    match gb_crs a with Some c => Dh c | None => True end -> match gb_crs b with Some c => Dh c | None => True end ->
    geobox_eqb W a b = true -> geobox_hashkey a = geobox_hashkey b.
Proof. intros W Dh a b. exact (geobox_hash W Dh a b). Qed.
Print Assumptions C19_geobox_eq_implies_hash_partial.

(** GCPGeoBox after the repair (mapping compared by value) *)
Theorem C19_gcpgeobox_laws :
  forall W D reload, crs_laws W D reload ->
    (forall a, gcpbox_ok D a -> gcpbox_eqb W a a = true) /\
    (forall a b, gcpbox_ok D a -> gcpbox_ok D b -> gcpbox_eqb W a b = true -> gcpbox_eqb W b a = true) /\
    (forall a b c, gcpbox_ok D a -> gcpbox_ok D b -> gcpbox_ok D c -> gcpbox_eqb W a b = true -> gcpbox_eqb W b c = true -> gcpbox_eqb W a c = true) /\
    (forall a b, gcpbox_ok D a -> gcpbox_ok D b -> gcpbox_token a = gcpbox_token b -> gcpbox_eqb W a b = true) /\
    (forall a, gcpbox_ok D a -> gcpbox_ok D (gcpbox_pickle reload a) /\ gcpbox_eqb W (gcpbox_pickle reload a) a = true /\
                              gcpbox_eqb W a (gcpbox_pickle reload a) = true /\ gcpbox_token (gcpbox_pickle reload a) = gcpbox_token a).
Proof. exact gcpbox_laws. Qed.
Print Assumptions C19_gcpgeobox_laws.

Theorem C19_gcpgeobox_eq_implies_hash_partial :
  forall W (Dh : crsv -> Prop) a b, hash_dom W Dh ->
    match gcpbox_crs a with Some c => Dh c | None => True end -> match gcpbox_crs b with Some c => Dh c | None => True end ->
    gcpbox_eqb W a b = true -> gcpbox_hashkey a = gcpbox_hashkey b.
Proof. intros W Dh a b. exact (gcpbox_hash W Dh a b). Qed.
Print Assumptions C19_gcpgeobox_eq_implies_hash_partial.

(** with the mapping compared by identity (code before the repair) an unpickled clone was unequal while sharing the token *)
Theorem C19_gcpgeobox_identity_eq_refuted :
  exists (g : gcpbox) (mid mid' : Z), mid <> mid' /\ gcpbox_eqb_v0 mid mid' g g = false /\ gcpbox_token g = gcpbox_token g.
Proof. exact gcp_identity_witness. Qed.
Print Assumptions C19_gcpgeobox_identity_eq_refuted.

(** Tiles / VariableSizedTiles: == is structural equality and the token determines the value (pickling is the identity) *)
Theorem C19_tiles_laws :
  (forall a, tiles_eqb a a = true) /\ (forall a b, tiles_eqb a b = true -> tiles_eqb b a = true) /\
  (forall a b c, tiles_eqb a b = true -> tiles_eqb b c = true -> tiles_eqb a c = true) /\
  (forall a b, tiles_token a = tiles_token b -> tiles_eqb a b = true) /\
  (forall a b, tiles_eqb a b = true -> tiles_token a = tiles_token b).
Proof. exact tiles_laws. Qed.
Print Assumptions C19_tiles_laws.

Theorem C19_tiles_token_before_repair_refuted :
  exists a b, tiles_eqb a b = false /\ tiles_token_v0 a = tiles_token_v0 b.
Proof. exact tiles_token_v0_collides. Qed.
Print Assumptions C19_tiles_token_before_repair_refuted.

Theorem C19_vtiles_laws :
  (forall a, vtiles_eqb a a = true) /\ (forall a b, vtiles_eqb a b = true -> vtiles_eqb b a = true) /\
  (forall a b c, vtiles_eqb a b = true -> vtiles_eqb b c = true -> vtiles_eqb a c = true) /\
  (forall a b, vtiles_token a = vtiles_token b -> vtiles_eqb a b = true) /\
  (forall a b, vtiles_eqb a b = true -> vtiles_token a = vtiles_token b).
Proof. exact vtiles_laws. Qed.
Print Assumptions C19_vtiles_laws.

Theorem C19_geoboxtiles_laws :
  forall W D reload, crs_laws W D reload ->
    (forall a, gbtiles_ok D a -> gbtiles_eqb W a a = true) /\
    (forall a b, gbtiles_ok D a -> gbtiles_ok D b -> gbtiles_eqb W a b = true -> gbtiles_eqb W b a = true) /\
    (forall a b c, gbtiles_ok D a -> gbtiles_ok D b -> gbtiles_ok D c -> gbtiles_eqb W a b = true -> gbtiles_eqb W b c = true -> gbtiles_eqb W a c = true) /\
    (forall a b, gbtiles_ok D a -> gbtiles_ok D b -> gbtiles_token a = gbtiles_token b -> gbtiles_eqb W a b = true) /\
    (forall a, gbtiles_ok D a -> gbtiles_ok D (gbtiles_pickle reload a) /\ gbtiles_eqb W (gbtiles_pickle reload a) a = true /\
                               gbtiles_eqb W a (gbtiles_pickle reload a) = true /\ gbtiles_token (gbtiles_pickle reload a) = gbtiles_token a).
Proof. exact gbtiles_laws. Qed.
Print Assumptions C19_geoboxtiles_laws.

(** XY family: == and hash ignore the class and the number type; equal tokens imply == *)
Theorem C19_xy_laws :
  (forall a, xy_eqb a a = true) /\ (forall a b, xy_eqb a b = true -> xy_eqb b a = true) /\
  (forall a b c, xy_eqb a b = true -> xy_eqb b c = true -> xy_eqb a c = true) /\
  (forall a b, xy_eqb a b = true -> xy_hashkey a = xy_hashkey b) /\
  (forall a b, xy_token a = xy_token b -> xy_eqb a b = true).
Proof. exact xy_laws. Qed.
Print Assumptions C19_xy_laws.

Theorem C19_gridspec_laws :
  forall W D reload, crs_laws W D reload ->
    (forall a, gridspec_ok D a -> gridspec_eqb W a a = true) /\
    (forall a b, gridspec_ok D a -> gridspec_ok D b -> gridspec_eqb W a b = true -> gridspec_eqb W b a = true) /\
    (forall a b c, gridspec_ok D a -> gridspec_ok D b -> gridspec_ok D c -> gridspec_eqb W a b = true -> gridspec_eqb W b c = true -> gridspec_eqb W a c = true) /\
    (forall a b, gridspec_ok D a -> gridspec_ok D b -> gridspec_token a = gridspec_token b -> gridspec_eqb W a b = true) /\
    (forall a, gridspec_ok D a -> gridspec_ok D (gridspec_pickle reload a) /\ gridspec_eqb W (gridspec_pickle reload a) a = true /\
                                gridspec_eqb W a (gridspec_pickle reload a) = true /\ gridspec_token (gridspec_pickle reload a) = gridspec_token a).
Proof. exact gridspec_laws. Qed.
Print Assumptions C19_gridspec_laws.

(** * non-vacuity *)
Example C19_contracts_satisfiable : contracts toy.
Proof. exact toy_contracts. Qed.

Example C19_reachable_state_with_cached_transformer :
  tcache (run toy init demo_history) = [((100, 101, true), (1, 3, true))] /\
  map fst (heap (run toy init demo_history)) = [102; 101; 100].
Proof. exact demo_state. Qed.

Example C19_crs_laws_satisfiable : exists Hp reload v, Dcrs toy Hp v /\ crs_laws toy (Dcrs toy Hp) reload.
Proof. exact demo_laws. Qed.
