(** Property C08 — a GeoBox built from a region covers it and is snapped as
    requested (GeoBox.from_bbox / from_geopolygon / zoom_to(resolution=)).
    Only statements, each closed by [exact] of a lemma from Proofs/, followed by
    [Print Assumptions].  Floats are exact rationals [Q].

    A result is [((ny, nx), A)]: shape and affine [A = (a b c; d e f)].  For one
    axis, [grid_lo rs tx n] / [grid_hi rs tx n] are the low / high end of the
    [n] pixels of signed size [rs] that start at [tx], and
    [axis_spec x0 x1 rs o tol tx n] (Proofs/FromBboxProofs.v, unfolded in
    [C08_axis_spec_meaning]) says: at least one pixel; covers [x0, x1] except at
    most [tol] pixel per side; exceeds it by at most one pixel on the low side
    and (1 + tol) pixel on the high side (strictly less for a non-degenerate
    interval; less than one pixel when the interval is at least a pixel long);
    and [tx] sits at (integer + o) pixels from the origin, or — floating, [o =
    None] — exactly on the region's edge. *)
From Coq Require Import ZArith QArith Qround Qabs List Bool Lia.
From OG Require Import Base.Result Model.Roi Model.MathH Model.FromBbox Model.FromBboxCases (* cases: only so that the check's build closure keeps them fresh *)
  Proofs.MathHBasics Proofs.MathHSnap Proofs.FromBboxProofs.
Import ListNotations.
Open Scope Q_scope.

(** the per-axis statement, spelled out *)
Theorem C08_axis_spec_meaning :
  forall x0 x1 rs o tol tx nx,
    axis_spec x0 x1 rs o tol tx nx <->
    ((1 <= nx)%Z /\
     grid_hi rs tx nx - grid_lo rs tx nx == inject_Z nx * Qabs rs /\
     grid_lo rs tx nx <= x0 + tol * Qabs rs /\
     x1 - tol * Qabs rs <= grid_hi rs tx nx /\
     x0 - grid_lo rs tx nx <= Qabs rs /\
     grid_hi rs tx nx - x1 <= (1 + tol) * Qabs rs /\
     (x0 < x1 -> x0 - grid_lo rs tx nx < Qabs rs /\ grid_hi rs tx nx - x1 < (1 + tol) * Qabs rs) /\
     (Qabs rs <= x1 - x0 -> tol < 1 -> grid_hi rs tx nx - x1 < Qabs rs) /\
     match o with
     | Some o => exists k : Z, tx == (inject_Z k + o) * Qabs rs
     | None => tx == (if Qltb 0 rs then x0 else x1)
     end).
Proof. intros. unfold axis_spec. tauto. Qed.
Print Assumptions C08_axis_spec_meaning.

(** which snapping each anchor / tight combination selects *)
Theorem C08_anchor_table :
  forall tight anchor,
    (tight = true -> snap_of tight anchor = None) /\
    (tight = false ->
     match anchor with
     | AnDefault | AnEdge => snap_of tight anchor = Some (0, 0)
     | AnCenter => snap_of tight anchor = Some (1#2, 1#2)
     | AnFloating => snap_of tight anchor = None
     | AnXY x y => snap_of tight anchor = Some (x, y)
     | AnNum a => exists sx sy, snap_of tight anchor = Some (sx, sy) /\ sx == a /\ sy == a
     end).
Proof. exact snap_of_table. Qed.
Print Assumptions C08_anchor_table.

(** ** resolution-driven: for every box, every non-zero resolution of either
    sign per axis, every anchor in [0,1) per axis or floating, every tol >= 0:
    the pixel size is exactly the requested one, no rotation, and both axes
    satisfy [axis_spec] *)
Theorem C08_from_bbox_resolution :
  forall (b : bbox) (tight : bool) (shape : shape_in) (rr : some_res) (anchor : anchor_in) (tol : Q),
    match shape with ShScalar _ => False | _ => True end ->
    ~ fst (res_xy rr) == 0 -> ~ snd (res_xy rr) == 0 ->
    bl b <= br b -> bb b <= bt b -> 0 <= tol ->
    match snap_of tight anchor with
    | None => True
    | Some (sx, sy) => (0 <= sx /\ sx < 1) /\ (0 <= sy /\ sy < 1)
    end ->
    exists nx ny offx offy A,
      from_bbox b tight shape (Some rr) anchor tol = Ok ((ny, nx), A) /\
      aff_eq A (mkAff (fst (res_xy rr)) 0 offx 0 (snd (res_xy rr)) offy) /\
      axis_spec (bl b) (br b) (fst (res_xy rr)) (option_map fst (snap_of tight anchor)) tol offx nx /\
      axis_spec (bb b) (bt b) (snd (res_xy rr)) (option_map snd (snap_of tight anchor)) tol offy ny.
Proof. exact from_bbox_resolution. Qed.
Print Assumptions C08_from_bbox_resolution.

(** ... and the pixel count is minimal (0 <= tol <= 1/2): per axis, a snapped grid
    cannot start one pixel later nor (with >= 2 pixels) end one pixel earlier and
    still cover the box up to [tol] pixel; a floating grid with >= 2 pixels cannot
    drop its last pixel *)
Theorem C08_from_bbox_resolution_minimal :
  forall (b : bbox) (tight : bool) (shape : shape_in) (rr : some_res) (anchor : anchor_in) (tol : Q) ny nx A,
    match shape with ShScalar _ => False | _ => True end ->
    ~ fst (res_xy rr) == 0 -> ~ snd (res_xy rr) == 0 -> 0 <= tol -> tol <= 1#2 ->
    from_bbox b tight shape (Some rr) anchor tol = Ok ((ny, nx), A) ->
    let minimal x0 x1 rs (o : option Q) tx (n : Z) :=
      match o with
      | Some _ =>
          x0 + tol * Qabs rs <= grid_lo rs tx n + Qabs rs /\
          ((2 <= n)%Z -> grid_lo rs tx n + inject_Z n * Qabs rs - Qabs rs <= x1 - tol * Qabs rs)
      | None => (2 <= n)%Z -> (inject_Z n - 1) * Qabs rs <= x1 - x0 - tol * Qabs rs
      end in
    minimal (bl b) (br b) (fst (res_xy rr)) (option_map fst (snap_of tight anchor)) (ac A) nx /\
    minimal (bb b) (bt b) (snd (res_xy rr)) (option_map snd (snap_of tight anchor)) (af A) ny.
Proof. exact from_bbox_resolution_minimal. Qed.
Print Assumptions C08_from_bbox_resolution_minimal.

(** ** shape-driven: exactly the requested shape, pixel size = span / shape,
    no displacement when floating, displacement below one pixel and edges on the
    anchor when snapping *)
Theorem C08_from_bbox_shape :
  forall (b : bbox) (tight : bool) (ny nx : Z) (anchor : anchor_in) (tol : Q),
    (1 <= nx)%Z -> (1 <= ny)%Z -> bl b < br b -> bb b < bt b -> 0 <= tol -> tol < 1 ->
    match snap_of tight anchor with
    | None => True
    | Some (sx, sy) => (0 <= sx /\ sx < 1) /\ (0 <= sy /\ sy < 1)
    end ->
    exists A,
      from_bbox b tight (ShYX ny nx) None anchor tol = Ok ((ny, nx), A) /\
      aa A == span_x b / inject_Z nx /\ ae A == - (span_y b / inject_Z ny) /\ ab A == 0 /\ ad A == 0 /\
      inject_Z nx * aa A == span_x b /\ inject_Z ny * - ae A == span_y b /\
      match snap_of tight anchor with
      | None => ac A == bl b /\ af A == bt b
      | Some (sx, sy) =>
          Qabs (ac A - bl b) < aa A /\ Qabs (af A - bt b) < - ae A /\
          (exists k : Z, ac A == (inject_Z k + sx) * aa A) /\
          (exists k : Z, af A == (inject_Z k + sy) * - ae A)
      end.
Proof. exact from_bbox_shape. Qed.
Print Assumptions C08_from_bbox_shape.

(** a single number as shape: square pixels of size (longest span)/n, then the
    resolution-driven construction; with snapping off the longest side gets
    exactly n pixels *)
Theorem C08_from_bbox_int_shape :
  forall (b : bbox) (tight : bool) (n : Q) (resolution : option some_res) (anchor : anchor_in) (tol : Q),
    ~ span_y b == 0 -> ~ n == 0 ->
    from_bbox b tight (ShScalar n) resolution anchor tol =
    from_bbox b tight ShNone
              (Some (RScalar ((if Qltb 1 (span_x b / span_y b) then span_x b else span_y b) / n))) anchor tol.
Proof. exact from_bbox_int_shape. Qed.
Print Assumptions C08_from_bbox_int_shape.

Theorem C08_from_bbox_int_shape_tight :
  forall (b : bbox) (m : Z) (resolution : option some_res) (anchor : anchor_in) (tol : Q),
    (1 <= m)%Z -> bl b < br b -> bb b < bt b -> 0 <= tol ->
    exists nx ny A, from_bbox b true (ShScalar (inject_Z m)) resolution anchor tol = Ok ((ny, nx), A) /\
                    (if Qltb 1 (span_x b / span_y b) then nx = m else ny = m) /\
                    ae A == - aa A /\ (1 <= nx)%Z /\ (1 <= ny)%Z.
Proof. exact from_bbox_int_shape_tight. Qed.
Print Assumptions C08_from_bbox_int_shape_tight.

Theorem C08_from_bbox_needs_shape_or_resolution :
  forall b tight anchor tol, from_bbox b tight ShNone None anchor tol = Err EValue.
Proof. exact from_bbox_no_shape_no_resolution. Qed.
Print Assumptions C08_from_bbox_needs_shape_or_resolution.

(** ** polygon variant: the bounding box of the vertices contains every vertex,
    and from_geopolygon is from_bbox on it; the legacy [align] (CRS units)
    places pixel edges at [align + k*|res|] *)
Theorem C08_polygon_bbox_contains_vertices :
  forall (p0 : Q * Q) (pts : list (Q * Q)) (p : Q * Q),
    In p (p0 :: pts) ->
    let B := bbox_of_points p0 pts in
    bl B <= fst p /\ fst p <= br B /\ bb B <= snd p /\ snd p <= bt B.
Proof. exact bbox_of_points_contains. Qed.
Print Assumptions C08_polygon_bbox_contains_vertices.

Theorem C08_from_geopolygon_is_from_bbox :
  forall b resolution shape tight anchor tol,
    from_geopolygon_bbox b resolution None shape tight anchor tol = from_bbox b tight shape resolution anchor tol /\
    from_geopolygon_bbox b resolution (Some (0, 0)) shape tight anchor tol = from_bbox b tight shape resolution AnEdge tol.
Proof. intros; split; reflexivity. Qed.
Print Assumptions C08_from_geopolygon_is_from_bbox.

Theorem C08_from_geopolygon_align :
  forall (b : bbox) (rr : some_res) (ax ay : Q) (shape : shape_in) (tol : Q) (anchor : anchor_in),
    match shape with ShScalar _ => False | _ => True end ->
    ~ fst (res_xy rr) == 0 -> ~ snd (res_xy rr) == 0 ->
    ~ (ax == 0 /\ ay == 0) ->
    0 <= ax -> ax < Qabs (fst (res_xy rr)) -> 0 <= ay -> ay < Qabs (snd (res_xy rr)) ->
    bl b <= br b -> bb b <= bt b -> 0 <= tol ->
    exists nx ny offx offy A,
      from_geopolygon_bbox b (Some rr) (Some (ax, ay)) shape false anchor tol = Ok ((ny, nx), A) /\
      aff_eq A (mkAff (fst (res_xy rr)) 0 offx 0 (snd (res_xy rr)) offy) /\
      axis_spec (bl b) (br b) (fst (res_xy rr)) (Some (ax / Qabs (fst (res_xy rr)))) tol offx nx /\
      axis_spec (bb b) (bt b) (snd (res_xy rr)) (Some (ay / Qabs (snd (res_xy rr)))) tol offy ny /\
      (exists k : Z, offx == inject_Z k * Qabs (fst (res_xy rr)) + ax) /\
      (exists k : Z, offy == inject_Z k * Qabs (snd (res_xy rr)) + ay).
Proof. exact from_geopolygon_align. Qed.
Print Assumptions C08_from_geopolygon_align.

(** ** zoom_to(resolution=): same region (bounding box of the four corners of
    the source grid, any affine), new pixel size exactly as requested, floating *)
Theorem C08_zoom_to_resolution :
  forall (g : gbox) (rr : some_res) (tol : Q),
    ~ fst (res_xy rr) == 0 -> ~ snd (res_xy rr) == 0 -> 0 <= tol ->
    let B := bbox_from_transform (fst g) (snd g) in
    exists nx ny offx offy A,
      zoom_to_resolution g rr tol = Ok ((ny, nx), A) /\
      aff_eq A (mkAff (fst (res_xy rr)) 0 offx 0 (snd (res_xy rr)) offy) /\
      axis_spec (bl B) (br B) (fst (res_xy rr)) None tol offx nx /\
      axis_spec (bb B) (bt B) (snd (res_xy rr)) None tol offy ny /\
      (let '(ny0, nx0) := fst g in
       forall p, In p [(0, 0); (inject_Z nx0, 0); (inject_Z nx0, inject_Z ny0); (0, inject_Z ny0)] ->
                 inside B (aff_apply (snd g) p)).
Proof. exact zoom_to_resolution_spec. Qed.
Print Assumptions C08_zoom_to_resolution.

(** ** Non-vacuity: concrete instances (evaluated, not assumed). *)
Example C08_ex_resolution :
  exists A, from_bbox (mkBBox (1#10) (-(5#2)) (101#10) (77#10)) false ShNone (Some (RXY 2 (-(3)))) AnCenter (1#100)
            = Ok ((5, 6)%Z, A) /\ aff_eq A (mkAff 2 0 (-(1)) 0 (-(3)) (21#2)).
Proof. eexists. split; [vm_compute; reflexivity|]. repeat split; reflexivity. Qed.
Example C08_ex_shape :
  exists A, from_bbox (mkBBox 0 0 10 5) true (ShYX 5 4) None AnDefault (1#100) = Ok ((5, 4)%Z, A) /\
            aff_eq A (mkAff (5#2) 0 0 0 (-(1)) 5).
Proof. eexists. split; [vm_compute; reflexivity|]. repeat split; reflexivity. Qed.
Example C08_ex_zoom :
  exists A, zoom_to_resolution ((4, 6)%Z, mkAff 10 0 100 0 (-(10)) 200) (RScalar 20) (1#100) = Ok ((2, 3)%Z, A) /\
            aff_eq A (mkAff 20 0 100 0 (-(20)) 200).
Proof. eexists. split; [vm_compute; reflexivity|]. repeat split; reflexivity. Qed.

(** Tie to the source: the definitions regenerated by tools/py2v from the current odc/geo/math.py (coq/Gen/MathGen.v, rewritten on every run) are the model (Model/MathH.v) the theorems above are stated on, up to the error kind. *)
From OG Require Proofs.MathGenEquivH.
Theorem C08_source_is_model : OG.Proofs.MathGenEquivH.math_source_is_model.
Proof. exact OG.Proofs.MathGenEquivH.math_source_is_model_holds. Qed.
Print Assumptions C08_source_is_model.
