(** Property C20 — numeric helpers of odc/geo/math.py meet their documented
    contracts.  Only statements, each closed by [exact] of a lemma from Proofs/,
    followed by [Print Assumptions].  Floats are exact rationals [Q] (binary64
    rounding is not modelled), Python ints are [Z]; [Err] results are Python
    exceptions.  All statements quantify over ALL rationals / integers. *)
From Coq Require Import ZArith QArith Qround Qabs List Bool Lia.
From OG Require Import Base.Result Model.Roi Model.MathH Model.MathHCases (* cases: only so that the check's build closure keeps them fresh *)
  Proofs.RoiProofs Proofs.MathHBasics Proofs.MathHSnap Proofs.MathHSnapMin Proofs.MathHScale Proofs.MathHMisc Proofs.MathHLinear.
Import ListNotations.
Open Scope Q_scope.

(** ** split_float: whole + fraction = x, fraction in [-1/2, 1/2], whole is an integer *)
Theorem C20_split_float :
  forall x : Q,
    let '(w, p) := split_float x in
    w + p == x /\ -(1#2) <= p /\ p <= 1#2 /\ exists z : Z, w == inject_Z z.
Proof. exact split_float_spec. Qed.
Print Assumptions C20_split_float.

(** the whole part is a nearest integer (the docstring's "equivalent to round(x)") *)
Theorem C20_split_float_nearest :
  forall (x : Q) (k : Z), Qabs (snd (split_float x)) <= Qabs (x - inject_Z k).
Proof. exact split_float_nearest. Qed.
Print Assumptions C20_split_float_nearest.

(** ** near-integer test and conversion agree with each other and with the tolerance *)
Theorem C20_is_almost_int_iff_maybe_int_snaps :
  forall x tol : Q, is_almost_int x tol = true <-> exists n : Z, maybe_int_z x tol = Some n.
Proof. exact is_almost_int_maybe_int. Qed.
Print Assumptions C20_is_almost_int_iff_maybe_int_snaps.

Theorem C20_is_almost_int_iff_within_tol :
  forall x tol : Q, is_almost_int x tol = true <-> exists k : Z, Qabs (x - inject_Z k) < tol.
Proof. exact is_almost_int_iff. Qed.
Print Assumptions C20_is_almost_int_iff_within_tol.

(** maybe_int either returns the nearest integer, strictly within [tol], or passes [x]
    through — and then no integer at all is strictly within [tol] *)
Theorem C20_maybe_int :
  forall x tol : Q,
    (exists n : Z, maybe_int_z x tol = Some n /\ maybe_int x tol = inject_Z n /\
                   Qabs (x - inject_Z n) < tol /\ -(1#2) <= x - inject_Z n /\ x - inject_Z n <= 1#2) \/
    (maybe_int_z x tol = None /\ maybe_int x tol = x /\ forall k : Z, tol <= Qabs (x - inject_Z k)).
Proof. exact maybe_int_cases. Qed.
Print Assumptions C20_maybe_int.

Theorem C20_maybe_zero :
  forall x tol : Q,
    (Qabs x < tol /\ maybe_zero x tol = 0) \/ (tol <= Qabs x /\ maybe_zero x tol = x).
Proof. exact maybe_zero_spec. Qed.
Print Assumptions C20_maybe_zero.

(** ** snap_scale: result is [s] itself, an integer within [tol] of [s], or [1/n] with
    [n] within [tol] of [1/s]; never fails for a positive tolerance; idempotent *)
Theorem C20_snap_scale :
  forall s tol : Q, 0 < tol ->
    exists r, snap_scale s tol = Ok r /\
      (r = s \/
       (exists n : Z, r = inject_Z n /\ Qabs (s - inject_Z n) < tol) \/
       (exists n : Z, n <> 0%Z /\ r = 1 / inject_Z n /\ ~ s == 0 /\ Qabs (1 / s - inject_Z n) < tol)).
Proof.
  intros s tol Ht. destruct (snap_scale_spec s tol Ht) as (r & E & R). exists r. split; [exact E|].
  destruct R as [H | n H1 H2 H3 | n H1 H2 H3 H4 H5]; [left; exact H | right; left; eauto | right; right; eauto].
Qed.
Print Assumptions C20_snap_scale.

(** ... and a scale that IS within tolerance of a snap target gets snapped *)
Theorem C20_snap_scale_complete :
  forall s tol : Q, 0 < tol ->
    (1 - tol <= Qabs s -> forall k : Z, Qabs (s - inject_Z k) < tol ->
       exists n : Z, snap_scale s tol = Ok (inject_Z n) /\ Qabs (s - inject_Z n) < tol) /\
    (Qabs s < 1 - tol -> tol <= Qabs s -> forall k : Z, Qabs (1 / s - inject_Z k) < tol ->
       exists n : Z, n <> 0%Z /\ snap_scale s tol = Ok (1 / inject_Z n) /\ Qabs (1 / s - inject_Z n) < tol).
Proof. exact snap_scale_complete. Qed.
Print Assumptions C20_snap_scale_complete.

Theorem C20_snap_scale_idempotent :
  forall s tol r : Q, 0 < tol -> tol < 1#2 ->
    snap_scale s tol = Ok r -> exists r', snap_scale r tol = Ok r' /\ r' == r.
Proof. exact snap_scale_idempotent. Qed.
Print Assumptions C20_snap_scale_idempotent.

(** ** integer alignment *)
Theorem C20_align_down :
  forall x a : Z, (0 < a)%Z ->
    (align_down x a mod a = 0 /\ align_down x a <= x /\ x - align_down x a < a)%Z.
Proof. exact align_down_spec. Qed.
Print Assumptions C20_align_down.

Theorem C20_align_up :
  forall x a : Z, (0 < a)%Z ->
    (align_up x a mod a = 0 /\ x <= align_up x a /\ align_up x a - x < a)%Z.
Proof. exact align_up_spec. Qed.
Print Assumptions C20_align_up.

(** smallest power of two >= x  (and 1 = 2^0 for x <= 0) *)
Theorem C20_align_up_pow2 :
  forall x : Z,
    ((x <= 0 -> align_up_pow2 x = 1) /\
     (1 <= x -> exists k, 0 <= k /\ align_up_pow2 x = 2 ^ k /\ x <= 2 ^ k /\
                          forall j, 0 <= j -> x <= 2 ^ j -> 2 ^ k <= 2 ^ j))%Z.
Proof.
  intros x. split; [apply align_up_pow2_nonpos|].
  intros H. destruct (align_up_pow2_spec x H) as (k & A & B & C & _ & D). exists k. auto.
Qed.
Print Assumptions C20_align_up_pow2.

(** largest power of two <= x *)
Theorem C20_align_down_pow2 :
  forall x : Z, (1 <= x)%Z ->
    (exists k, 0 <= k /\ align_down_pow2 x = 2 ^ k /\ 2 ^ k <= x /\
               forall j, 0 <= j -> 2 ^ j <= x -> 2 ^ j <= 2 ^ k)%Z.
Proof.
  intros x H. destruct (align_down_pow2_spec x H) as (k & A & B & C & _ & D). exists k. auto.
Qed.
Print Assumptions C20_align_down_pow2.

Theorem C20_clamp :
  forall x lo up : Q,
    (lo <= up ->
     exists r, clamp x lo up = Ok r /\ lo <= r /\ r <= up /\
               (lo <= x -> x <= up -> r = x) /\ (x < lo -> r = lo) /\ (up < x -> r = up)) /\
    (up < lo -> clamp x lo up = Err (EAssert 152)).
Proof. intros; split; [apply clamp_spec | apply clamp_err]. Qed.
Print Assumptions C20_clamp.

(** ** one-axis grid snapping.  [tx, nx] describe the pixels
    [tx + i*rs, tx + (i+1)*rs), i = 0..nx-1.

    Positive resolution, snapping to pixel fraction [o]: at least one pixel;
    the origin sits at (integer + o) pixels from 0; the span covers [x0, x1]
    up to [tol] pixel on each side; it starts less than one pixel before [x0]
    and ends at most (1 + tol) pixel after [x1] (strictly less when x0 < x1;
    less than one pixel when the interval is at least one pixel long). *)
Theorem C20_snap_grid_snapped_pos :
  forall x0 x1 rs o tol : Q, 0 < rs -> x0 <= x1 -> 0 <= o -> o < 1 -> 0 <= tol ->
    exists tx nx k,
      snap_grid x0 x1 rs (Some o) tol = Ok (tx, nx) /\
      (1 <= nx)%Z /\
      tx == (inject_Z k + o) * rs /\
      tx <= x0 + tol * rs /\ x0 - tx < rs /\
      x1 - tol * rs <= tx + inject_Z nx * rs /\
      tx + inject_Z nx * rs - x1 <= (1 + tol) * rs /\
      (x0 < x1 -> tx + inject_Z nx * rs - x1 < (1 + tol) * rs) /\
      (rs <= x1 - x0 -> tol < 1 -> tx + inject_Z nx * rs - x1 < rs).
Proof. intros x0 x1 rs o tol Hr Hx H0 H1 Ht. apply snap_grid_some_pos; try assumption. split; assumption. Qed.
Print Assumptions C20_snap_grid_snapped_pos.

(** negative resolution: [tx] is the upper edge and the pixels run downwards to
    [tx + nx*rs]; same guarantees with the roles of the two ends exchanged *)
Theorem C20_snap_grid_snapped_neg :
  forall x0 x1 rs o tol : Q, rs < 0 -> x0 <= x1 -> 0 <= o -> o < 1 -> 0 <= tol ->
    exists tx nx k,
      snap_grid x0 x1 rs (Some o) tol = Ok (tx, nx) /\
      (1 <= nx)%Z /\
      tx == (inject_Z k + o) * (- rs) /\
      tx + inject_Z nx * rs <= x0 + tol * (- rs) /\ x0 - (tx + inject_Z nx * rs) < - rs /\
      x1 - tol * (- rs) <= tx /\
      tx - x1 <= (1 + tol) * (- rs) /\
      (x0 < x1 -> tx - x1 < (1 + tol) * (- rs)) /\
      (- rs <= x1 - x0 -> tol < 1 -> tx - x1 < - rs).
Proof. intros x0 x1 rs o tol Hr Hx H0 H1 Ht. apply snap_grid_some_neg; try assumption. split; assumption. Qed.
Print Assumptions C20_snap_grid_snapped_neg.

(** [off_pix = None]: the grid starts exactly at x0 (at x1 for a negative resolution) *)
Theorem C20_snap_grid_floating_pos :
  forall x0 x1 rs tol : Q, 0 < rs -> x0 <= x1 -> 0 <= tol ->
    exists nx,
      snap_grid x0 x1 rs None tol = Ok (x0, nx) /\
      (1 <= nx)%Z /\
      x1 - tol * rs <= x0 + inject_Z nx * rs /\
      x0 + inject_Z nx * rs - x1 <= rs /\
      (x0 < x1 -> x0 + inject_Z nx * rs - x1 < rs).
Proof. exact snap_grid_none_pos. Qed.
Print Assumptions C20_snap_grid_floating_pos.

Theorem C20_snap_grid_floating_neg :
  forall x0 x1 rs tol : Q, rs < 0 -> x0 <= x1 -> 0 <= tol ->
    exists nx,
      snap_grid x0 x1 rs None tol = Ok (x1, nx) /\
      (1 <= nx)%Z /\
      x1 + inject_Z nx * rs <= x0 + tol * (- rs) /\
      x0 - (x1 + inject_Z nx * rs) <= - rs /\
      (x0 < x1 -> x0 - (x1 + inject_Z nx * rs) < - rs).
Proof. exact snap_grid_none_neg. Qed.
Print Assumptions C20_snap_grid_floating_neg.

(** minimal pixel count (0 <= tol <= 1/2): a snapped grid cannot start one pixel
    later nor (when it has at least two pixels) end one pixel earlier and still
    cover [x0, x1] up to [tol] pixel; a floating grid with at least two pixels
    cannot drop its last pixel.  [lo] is the low edge for either sign of [rs]. *)
Theorem C20_snap_grid_snapped_minimal :
  forall x0 x1 rs o tol tx nx, ~ rs == 0 -> 0 <= tol -> tol <= 1#2 ->
    snap_grid x0 x1 rs (Some o) tol = Ok (tx, nx) ->
    let a := Qabs rs in
    let lo := if Qltb 0 rs then tx else tx + inject_Z nx * rs in
    x0 + tol * a <= lo + a /\ ((2 <= nx)%Z -> lo + inject_Z nx * a - a <= x1 - tol * a).
Proof. exact snap_grid_some_min. Qed.
Print Assumptions C20_snap_grid_snapped_minimal.

Theorem C20_snap_grid_floating_minimal :
  forall x0 x1 rs tol tx nx, ~ rs == 0 -> 0 <= tol -> tol <= 1#2 ->
    snap_grid x0 x1 rs None tol = Ok (tx, nx) ->
    (2 <= nx)%Z -> (inject_Z nx - 1) * Qabs rs <= x1 - x0 - tol * Qabs rs.
Proof. exact snap_grid_none_min. Qed.
Print Assumptions C20_snap_grid_floating_minimal.

(** inputs outside the contract raise instead of returning a wrong grid *)
Theorem C20_snap_grid_errors :
  forall x0 x1 rs tol : Q,
    (forall o, rs == 0 -> exists e, snap_grid x0 x1 rs o tol = Err e) /\
    (forall o, ~ (0 <= o /\ o < 1) -> snap_grid x0 x1 rs (Some o) tol = Err (EAssert 207)) /\
    (forall o, x1 < x0 -> 0 <= o /\ o < 1 -> snap_grid x0 x1 rs (Some o) tol = Err (EAssert 182)).
Proof.
  intros. split; [|split]; intros.
  - apply snap_grid_err_zero; assumption.
  - apply snap_grid_err_off; assumption.
  - apply snap_grid_err_order; assumption.
Qed.
Print Assumptions C20_snap_grid_errors.

(** ** snap_affine: identity on rotated / sheared input *)
Theorem C20_snap_affine_rotated_untouched :
  forall (A : aff) (ttol stol tol : Q),
    tol < Qabs (ab A) \/ tol < Qabs (ad A) -> snap_affine A ttol stol tol = Ok A.
Proof. exact snap_affine_rotated. Qed.
Print Assumptions C20_snap_affine_rotated_untouched.

(** otherwise every coefficient moves only within its own tolerance *)
Theorem C20_snap_affine_within_tolerances :
  forall (A : aff) (ttol stol tol : Q),
    ~ (tol < Qabs (ab A) \/ tol < Qabs (ad A)) -> 0 < stol -> 0 < ttol ->
    exists B, snap_affine A ttol stol tol = Ok B /\
      ab B = 0 /\ ad B = 0 /\ Qabs (ab A) <= tol /\ Qabs (ad A) <= tol /\
      snap_scale (aa A) stol = Ok (aa B) /\ snap_scale (ae A) stol = Ok (ae B) /\
      Qabs (ac B - ac A) < ttol /\ Qabs (af B - af A) < ttol /\
      ((exists n : Z, ac B = inject_Z n) \/ ac B = ac A) /\
      ((exists n : Z, af B = inject_Z n) \/ af B = af A).
Proof.
  intros A ttol stol tol Hn Hs Ht.
  destruct (snap_affine_not_rotated A ttol stol tol Hn Hs) as (sx & sy & E & Ex & Ey & W1 & W2).
  eexists. split; [exact E|]. simpl.
  repeat split; try assumption; try (apply maybe_int_close; assumption); apply maybe_int_integer_or_same.
Qed.
Print Assumptions C20_snap_affine_within_tolerances.

Theorem C20_snap_affine_idempotent :
  forall (A : aff) (ttol stol tol : Q) (B : aff),
    0 < ttol -> 0 < stol -> stol < 1#2 ->
    snap_affine A ttol stol tol = Ok B ->
    exists B', snap_affine B ttol stol tol = Ok B' /\ aff_eq B' B.
Proof. exact snap_affine_idempotent. Qed.
Print Assumptions C20_snap_affine_idempotent.

Theorem C20_is_affine_st :
  forall (A : aff) (tol : Q),
    (is_affine_st A tol = true <-> Qabs (ab A) < tol /\ Qabs (ad A) < tol) /\
    (is_affine_st A tol = true -> ~ (tol < Qabs (ab A) \/ tol < Qabs (ad A))).
Proof. intros; split; [apply is_affine_st_iff | apply is_affine_st_not_rotated]. Qed.
Print Assumptions C20_is_affine_st.

(** ** the affine recovered from regularly spaced axis labels reproduces them:
    pixel centre (i + 1/2, j + 1/2) maps to (xx[i], yy[j]) *)
Theorem C20_affine_from_axis :
  forall (xx yy : list Q) (fb : option some_res) (cx rx cy ry : Q),
    regular xx cx rx -> regular yy cy ry ->
    axis_ok xx (option_map (fun f => fst (res_xy f)) fb) rx ->
    axis_ok yy (option_map (fun f => snd (res_xy f)) fb) ry ->
    exists A, affine_from_axis xx yy fb = Ok A /\
              aff_eq A (mkAff rx 0 (cx - (1#2) * rx) 0 ry (cy - (1#2) * ry)) /\
              forall i j, (i < length xx)%nat -> (j < length yy)%nat ->
                fst (aff_apply A (inject_Z (Z.of_nat i) + (1#2), inject_Z (Z.of_nat j) + (1#2))) == nth i xx 0 /\
                snd (aff_apply A (inject_Z (Z.of_nat i) + (1#2), inject_Z (Z.of_nat j) + (1#2))) == nth j yy 0.
Proof. exact affine_from_axis_spec. Qed.
Print Assumptions C20_affine_from_axis.

Theorem C20_data_resolution_errors :
  forall fb v, data_resolution_and_offset [] fb = Err EValue /\
               data_resolution_and_offset [v] None = Err EValue.
Proof. intros; split; reflexivity. Qed.
Print Assumptions C20_data_resolution_errors.

(** ** Bin1D: every point lies in exactly the bin whose interval contains it *)
Theorem C20_bin1d_bin_iff_interval :
  forall (b : bin1d) (x : Q) (i : Z), 0 < bsz b -> (bdir b = 1 \/ bdir b = -1)%Z ->
    (bin1d_bin b x = i <-> fst (bin1d_getitem b i) <= x /\ x < snd (bin1d_getitem b i)).
Proof. intros b x i H1 H2. apply bin1d_bin_iff. split; assumption. Qed.
Print Assumptions C20_bin1d_bin_iff_interval.

(** consecutive bins share an end point and every bin is [sz] wide *)
Theorem C20_bin1d_intervals_tile :
  forall (b : bin1d) (i : Z), 0 < bsz b -> (bdir b = 1 \/ bdir b = -1)%Z ->
    snd (bin1d_getitem b i) == fst (bin1d_getitem b (i + bdir b)) /\
    snd (bin1d_getitem b i) - fst (bin1d_getitem b i) == bsz b.
Proof. intros b i H1 H2. split; [apply bin1d_adjacent; split; assumption | apply bin1d_width]. Qed.
Print Assumptions C20_bin1d_intervals_tile.

(** reconstruction from a sample bin *)
Theorem C20_bin1d_from_sample_bin :
  forall (idx : Z) (x0 x1 : Q) (dir : Z), x0 < x1 -> (dir = 1 \/ dir = -1)%Z ->
    exists b, bin1d_from_sample_bin idx (x0, x1) dir = Ok b /\
              0 < bsz b /\ bdir b = dir /\ bsz b == x1 - x0 /\
              fst (bin1d_getitem b idx) == x0 /\ snd (bin1d_getitem b idx) == x1 /\
              (forall x, bin1d_bin b x = idx <-> x0 <= x /\ x < x1).
Proof.
  intros idx x0 x1 dir Hx Hd.
  destruct (bin1d_from_sample_bin_spec idx x0 x1 dir Hx Hd) as (b & E & [Hs _] & R). exists b. tauto.
Qed.
Print Assumptions C20_bin1d_from_sample_bin.

Theorem C20_bin1d_from_sample_bin_roundtrip :
  forall (b : bin1d) (i : Z), 0 < bsz b -> (bdir b = 1 \/ bdir b = -1)%Z ->
    exists b', bin1d_from_sample_bin i (bin1d_getitem b i) (bdir b) = Ok b' /\
               bsz b' == bsz b /\ borigin b' == borigin b /\ bdir b' = bdir b.
Proof. intros b i H1 H2. apply bin1d_from_sample_bin_roundtrip. split; assumption. Qed.
Print Assumptions C20_bin1d_from_sample_bin_roundtrip.

Theorem C20_bin1d_constructor_checks :
  forall sz origin dir b, bin1d_new sz origin dir = Ok b ->
    b = mkBin sz origin dir /\ 0 < sz /\ (dir = 1 \/ dir = -1)%Z.
Proof.
  intros sz origin dir b H. destruct (bin1d_new_inv _ _ _ _ H) as (-> & Hs & Hd). auto.
Qed.
Print Assumptions C20_bin1d_constructor_checks.

(** ** rotation / shear / scale decomposition.  [l11], [l22] are the two square
    roots numpy's Cholesky factorisation takes (universally quantified positive
    roots of their defining equations: covers every real-closed instance). *)
Theorem C20_decompose_rws :
  forall (A : mat2) (l11 l22 : Q),
    0 < l11 -> l11 * l11 == m00 (m2mul (m2T A) A) ->
    0 < l22 -> l22 * l22 == m11 (m2mul (m2T A) A) - (m01 (m2mul (m2T A) A) / l11) * (m01 (m2mul (m2T A) A) / l11) ->
    let '(R, W, Sm) := decompose_rws_with l11 l22 A in
    m2eq (m2mul R (m2mul W Sm)) A /\
    m2eq (m2mul (m2T R) R) m2I /\ m2det R == 1 /\
    m00 W == 1 /\ m10 W == 0 /\ m11 W == 1 /\
    m01 Sm == 0 /\ m10 Sm == 0.
Proof. exact decompose_rws_with_spec. Qed.
Print Assumptions C20_decompose_rws.

(** the executable version (exact rational roots) is an instance of the above *)
Theorem C20_decompose_rws_exec :
  forall (A : mat2) R W Sm, decompose_rws A = Ok (R, W, Sm) ->
    m2eq (m2mul R (m2mul W Sm)) A /\
    m2eq (m2mul (m2T R) R) m2I /\ m2det R == 1 /\
    m00 W == 1 /\ m10 W == 0 /\ m11 W == 1 /\ m01 Sm == 0 /\ m10 Sm == 0.
Proof. exact decompose_rws_exec_spec. Qed.
Print Assumptions C20_decompose_rws_exec.

(** resolution_from_affine: the diagonal for scale+translation transforms, the
    scale part of the decomposition otherwise *)
Theorem C20_resolution_from_affine :
  forall (A : aff) (tol : Q),
    (is_affine_st A tol = true -> resolution_from_affine A tol = Ok (aa A, ae A)) /\
    (forall rx ry, is_affine_st A tol = false -> resolution_from_affine A tol = Ok (rx, ry) ->
       exists R W Sm, decompose_rws (mkM (aa A) (ab A) (ad A) (ae A)) = Ok (R, W, Sm) /\ rx = m00 Sm /\ ry = m11 Sm).
Proof. intros; split; [apply resolution_from_affine_st | intros; eapply resolution_from_affine_rotated; eauto]. Qed.
Print Assumptions C20_resolution_from_affine.

(** ** affine fit: the exact least-squares (normal equation) solution reproduces
    any affine map from points whose normal matrix is invertible *)
Theorem C20_affine_from_pts :
  forall (A : aff) (X : list (Q * Q)) (B : aff),
    affine_from_pts X (map (aff_apply A) X) = Ok B -> aff_eq B A.
Proof. exact affine_from_pts_exact. Qed.
Print Assumptions C20_affine_from_pts.

Theorem C20_affine_from_pts_total :
  forall (A : aff) (X : list (Q * Q)),
    (3 <= length X)%nat -> ~ normal_det X == 0 ->
    exists B, affine_from_pts X (map (aff_apply A) X) = Ok B.
Proof. exact affine_from_pts_total. Qed.
Print Assumptions C20_affine_from_pts_total.

(** ** Non-vacuity: concrete instances (evaluated, not assumed). *)
Example C20_ex_split : let '(w, p) := split_float (-(7#4)) in w == -(2#1) /\ p == 1#4.
Proof. vm_compute. split; reflexivity. Qed.
Example C20_ex_snap_grid_neg :
  exists tx, snap_grid (5#2) (47#4) (-(2#1)) (Some (1#2)) (1#100) = Ok (tx, 6%Z) /\ tx == 13#1.
Proof. eexists. split; [vm_compute; reflexivity | reflexivity]. Qed.
Example C20_ex_snap_grid_floating_neg_near_int :
  snap_grid 10 (40 + (1#1000000000)) (-(10)) None (1#100) = Ok (40 + (1#1000000000), 3%Z).
Proof. vm_compute. reflexivity. Qed.
Example C20_ex_pow2 : align_up_pow2 (2 ^ 49 + 1) = (2 ^ 50)%Z /\ align_down_pow2 (2 ^ 49 + 1) = (2 ^ 49)%Z.
Proof. split; vm_compute; reflexivity. Qed.
Example C20_ex_snap_scale : exists r, snap_scale (1#4) (1#1000000) = Ok r /\ r == 1#4.
Proof. eexists. split; [vm_compute; reflexivity | reflexivity]. Qed.
Example C20_ex_rws :
  exists R W Sm, decompose_rws (mkM 0 4 2 1) = Ok (R, W, Sm) /\ m2eq R (mkM 0 (-(1)) 1 0) /\
                m2eq W (mkM 1 (-(1#4)) 0 1) /\ m2eq Sm (mkM 2 0 0 (-(4))).
Proof. do 3 eexists. split; [vm_compute; reflexivity|]. repeat split; reflexivity. Qed.
Example C20_ex_from_pts :
  exists B, affine_from_pts [(0, 0); (1, 0); (0, 1); (2#1, 3#1)]
                            (map (aff_apply (mkAff 2 (1#2) 10 0 (-(3)) 5)) [(0, 0); (1, 0); (0, 1); (2#1, 3#1)]) = Ok B /\
            aff_eq B (mkAff 2 (1#2) 10 0 (-(3)) 5).
Proof. eexists. split; [vm_compute; reflexivity|]. repeat split; reflexivity. Qed.

(** Tie to the source: the definitions regenerated by tools/py2v from the current odc/geo/math.py (coq/Gen/MathGen.v, rewritten on every run) are the model (Model/MathH.v) the theorems above are stated on, up to the error kind. *)
From OG Require Proofs.MathGenEquivH.
Theorem C20_source_is_model : OG.Proofs.MathGenEquivH.math_source_is_model.
Proof. exact OG.Proofs.MathGenEquivH.math_source_is_model_holds. Qed.
Print Assumptions C20_source_is_model.
