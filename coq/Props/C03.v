(** Property C03 — reprojection planning never drops a needed pixel.
    Only statements, each closed by [exact] of a lemma from Proofs/OverlapProofs.v.

    Conventions (those of the code): [A] maps destination pixel coordinates to
    source pixel coordinates (X_src = A * X_dst), pixel [d] covers [d, d+1) and
    has its centre at [d + 1/2]; a source location [x] belongs to source pixel
    [floor x]; slices / regions are half open (start, stop) pairs, a region is
    ((y0,y1),(x0,x1)).  All numbers are exact rationals (see the note of the
    check for the binary64 abstraction). *)
From Coq Require Import ZArith QArith Qround Qabs List Bool Lia.
From OG Require Import Base.Result Base.QZ Model.Roi Model.Overlap
     Proofs.RoiPointsProofs Proofs.OverlapProofs Proofs.OverlapOrdered.
Import ListNotations.
Open Scope Q_scope.

(** * one axis: compute_axis_overlap, every non-zero scale (mirrored, fractional) and shift *)
Theorem C03_axis_overlap :
  forall (Ns Nd : Z) (s t : Q), (0 <= Ns)%Z -> (0 <= Nd)%Z -> ~ s == 0 ->
  exists src dst, axis_overlap Ns Nd s t = Ok (src, dst) /\
    (* both slices are well formed and lie inside their images *)
    sl_within src Ns /\ sl_within dst Nd /\
    (* every destination pixel whose centre maps inside the source is covered, and so is its source pixel *)
    (forall d, (0 <= d < Nd)%Z ->
       let x := s * (inject_Z d + (1#2)) + t in
       0 <= x -> x < inject_Z Ns -> in_sl dst d /\ in_sl src (Qfloor x)) /\
    (* images that do not overlap (touching included) give two empty slices *)
    ((t <= 0 /\ inject_Z Nd * s + t <= 0) \/ (inject_Z Ns <= t /\ inject_Z Ns <= inject_Z Nd * s + t) ->
       sl_empty src /\ sl_empty dst).
Proof. exact axis_overlap_spec. Qed.
Print Assumptions C03_axis_overlap.

Theorem C03_axis_zero_scale_rejected :
  forall Ns Nd s t, s == 0 -> axis_overlap Ns Nd s t = Err (EAssert 259).
Proof. exact axis_overlap_err. Qed.
Print Assumptions C03_axis_zero_scale_rejected.

(** * same CRS, sampled path (rotation, shear, fractional scale, padding/align requested):
      any invertible affine *)
Theorem C03_same_crs_sampled_inclusion :
  forall c ss ds A F ttol stol padding align r,
  reproject_linear c ss ds A F ttol stol padding align = Ok r ->
  paste_ok r = false ->
  (0 <= fst ss)%Z -> (0 <= snd ss)%Z -> (0 <= fst ds)%Z -> (0 <= snd ds)%Z ->
  (0 <= pad_default padding)%Z -> align_ok (norm_align align) ->
  inverse_of F A ->
  forall dy dx, (0 <= dy < fst ds)%Z -> (0 <= dx < snd ds)%Z ->
    let p := aff_apply A (pix_center dy dx) in
    0 <= fst p -> fst p < inject_Z (snd ss) -> 0 <= snd p -> snd p < inject_Z (fst ss) ->
    in_roi (roi_dst r) dy dx /\ in_roi (roi_src r) (Qfloor (snd p)) (Qfloor (fst p)).
Proof. exact sampled_inclusion. Qed.
Print Assumptions C03_same_crs_sampled_inclusion.

(** the requested padding (default 1) is honoured: every source pixel within [padding] of a needed
    one (and inside the image) is part of the source region *)
Theorem C03_same_crs_sampled_padding :
  forall c ss ds A F ttol stol padding align r,
  reproject_linear c ss ds A F ttol stol padding align = Ok r ->
  paste_ok r = false ->
  (0 <= fst ss)%Z -> (0 <= snd ss)%Z -> (0 <= fst ds)%Z -> (0 <= snd ds)%Z ->
  (0 <= pad_default padding)%Z -> align_ok (norm_align align) ->
  inverse_of F A ->
  forall dy dx, (0 <= dy < fst ds)%Z -> (0 <= dx < snd ds)%Z ->
    let p := aff_apply A (pix_center dy dx) in
    0 <= fst p -> fst p < inject_Z (snd ss) -> 0 <= snd p -> snd p < inject_Z (fst ss) ->
    forall jy jx,
      (Qfloor (snd p) - pad_default padding <= jy <= Qfloor (snd p) + pad_default padding)%Z ->
      (Qfloor (fst p) - pad_default padding <= jx <= Qfloor (fst p) + pad_default padding)%Z ->
      (0 <= jy < fst ss)%Z -> (0 <= jx < snd ss)%Z ->
      in_roi (roi_src r) jy jx.
Proof. exact sampled_padding. Qed.
Print Assumptions C03_same_crs_sampled_padding.

Theorem C03_same_crs_sampled_within :
  forall c ss ds A F ttol stol padding align r,
  reproject_linear c ss ds A F ttol stol padding align = Ok r -> paste_ok r = false ->
  (0 <= fst ss)%Z -> (0 <= snd ss)%Z -> (0 <= fst ds)%Z -> (0 <= snd ds)%Z ->
  (0 <= fst (fst (roi_src r)) <= fst ss /\ 0 <= snd (fst (roi_src r)) <= fst ss /\
   0 <= fst (snd (roi_src r)) <= snd ss /\ 0 <= snd (snd (roi_src r)) <= snd ss)%Z /\
  (0 <= fst (fst (roi_dst r)) <= fst ds /\ 0 <= snd (fst (roi_dst r)) <= fst ds /\
   0 <= fst (snd (roi_dst r)) <= snd ds /\ 0 <= snd (snd (roi_dst r)) <= snd ds)%Z.
Proof. exact sampled_within. Qed.
Print Assumptions C03_same_crs_sampled_within.

(** ... and are well-formed slices: start <= stop on both axes of both regions (an empty
    region is [k:k], never a reversed pair that numpy would read as a wrap-around) *)
Theorem C03_same_crs_sampled_ordered :
  forall c ss ds A F ttol stol padding align r,
  reproject_linear c ss ds A F ttol stol padding align = Ok r -> paste_ok r = false ->
  (0 <= fst ss)%Z -> (0 <= snd ss)%Z -> (0 <= fst ds)%Z -> (0 <= snd ds)%Z ->
  (0 <= pad_default padding)%Z -> align_ok (norm_align align) ->
  roi_ordered (roi_src r) /\ roi_ordered (roi_dst r).
Proof. exact sampled_ordered. Qed.
Print Assumptions C03_same_crs_sampled_ordered.

(** separated by more than the padding margin (whatever the alignment: the source region is aligned only
    when the un-aligned padded envelope meets the image) -> source region empty, destination 0:0 *)
Theorem C03_same_crs_sampled_separated_empty :
  forall c ss ds A F ttol stol padding align r,
  reproject_linear c ss ds A F ttol stol padding align = Ok r -> paste_ok r = false ->
  (0 <= fst ss)%Z -> (0 <= snd ss)%Z -> (0 <= pad_default padding)%Z ->
  let pts := map (aff_pt A) (boundary_pts ((0%Z, fst ds), (0%Z, snd ds)) 2) in
  axis_sep (xs_of pts) (snd ss) (pad_default padding) None \/
  axis_sep (ys_of pts) (fst ss) (pad_default padding) None ->
  roi_empty (roi_src r) = true /\ roi_dst r = ((0, 0), (0, 0))%Z.
Proof. exact sampled_disjoint. Qed.
Print Assumptions C03_same_crs_sampled_separated_empty.

(** [axis_sep] holds when every projected corner is beyond the image by the margin *)
Theorem C03_separated_by_margin :
  forall vals n pad align,
  (forall v, In v vals -> v <= - inject_Z pad) \/
  (forall v, In v vals -> inject_Z (n + align_slack align + pad) <= v) ->
  axis_sep vals n pad align.
Proof. exact axis_sep_all. Qed.
Print Assumptions C03_separated_by_margin.

(** * same CRS, paste path ([k] = read_shrink; [P] = snapped transform into the k-fold overview) *)
(** inclusion for ANY true source location (px, py) whose overview coordinate is within half a
    pixel of the snapped transform (sub-pixel shift < ttol, accumulated scale deviation) *)
Theorem C03_same_crs_paste_inclusion :
  forall c ss ds A F ttol stol padding align r,
  reproject_linear c ss ds A F ttol stol padding align = Ok r -> paste_ok r = true ->
  (0 <= fst ss)%Z -> (0 <= snd ss)%Z -> (0 <= fst ds)%Z -> (0 <= snd ds)%Z -> tol_ok c stol ->
  let k := read_shrink r in
  let P := paste_affine c A ttol stol k in
  forall dy dx, (0 <= dy < fst ds)%Z -> (0 <= dx < snd ds)%Z ->
  forall px py : Q,
    Qabs (px / inject_Z k - fst (aff_apply P (pix_center dy dx))) < 1#2 ->
    Qabs (py / inject_Z k - snd (aff_apply P (pix_center dy dx))) < 1#2 ->
    0 <= px -> px < inject_Z (snd ss) -> 0 <= py -> py < inject_Z (fst ss) ->
    in_roi (roi_dst r) dy dx /\ in_roi (roi_src r) (Qfloor py) (Qfloor px).
Proof. exact paste_inclusion. Qed.
Print Assumptions C03_same_crs_paste_inclusion.

(** the half-pixel condition holds for the true transform itself when its scale is exactly +-k
    (whole-pixel shift plus a residue below ttol <= 1/2) *)
Theorem C03_paste_drift_exact_scale :
  forall ttol (k tx : Z) (a t : Q) (flip : bool) (d : Z),
  (1 <= k)%Z -> a == unit_q flip * inject_Z k ->
  Qabs (t / inject_Z k - inject_Z tx) < ttol -> ttol <= 1#2 ->
  Qabs ((a * (inject_Z d + (1#2)) + t) / inject_Z k - (unit_q flip * (inject_Z d + (1#2)) + inject_Z tx)) < 1#2.
Proof. exact paste_drift_exact. Qed.
Print Assumptions C03_paste_drift_exact_scale.

(** regions inside the images; the source region consists of multiples of k and may extend to the
    next multiple of k beyond the image *)
Theorem C03_same_crs_paste_within :
  forall c ss ds A F ttol stol padding align r,
  reproject_linear c ss ds A F ttol stol padding align = Ok r -> paste_ok r = true ->
  (0 <= fst ss)%Z -> (0 <= snd ss)%Z -> (0 <= fst ds)%Z -> (0 <= snd ds)%Z -> tol_ok c stol ->
  let k := read_shrink r in
  roi_within (roi_dst r) ds /\
  roi_within (roi_src r) (k * fst (src_dims ss k), k * snd (src_dims ss k))%Z /\
  (fst (fst (roi_src r)) mod k = 0 /\ snd (fst (roi_src r)) mod k = 0 /\
   fst (snd (roi_src r)) mod k = 0 /\ snd (snd (roi_src r)) mod k = 0)%Z /\
  (k = 1%Z -> roi_within (roi_src r) ss) /\
  (k * fst (src_dims ss k) < fst ss + k \/ fst ss = 0)%Z /\ (k * snd (src_dims ss k) < snd ss + k \/ snd ss = 0)%Z.
Proof. exact paste_within. Qed.
Print Assumptions C03_same_crs_paste_within.

Theorem C03_same_crs_paste_disjoint_empty :
  forall c ss ds A F ttol stol padding align r,
  reproject_linear c ss ds A F ttol stol padding align = Ok r -> paste_ok r = true ->
  (0 <= fst ss)%Z -> (0 <= snd ss)%Z -> (0 <= fst ds)%Z -> (0 <= snd ds)%Z -> tol_ok c stol ->
  let k := read_shrink r in
  let P := paste_affine c A ttol stol k in
  (forall dx, (0 <= dx < snd ds)%Z ->
     let x := fst (aff_apply P (pix_center 0 dx)) in ~ (0 <= x /\ x < inject_Z (snd (src_dims ss k)))) \/
  (forall dy, (0 <= dy < fst ds)%Z ->
     let y := snd (aff_apply P (pix_center dy 0)) in ~ (0 <= y /\ y < inject_Z (fst (src_dims ss k)))) ->
  roi_empty (roi_src r) = true /\ roi_empty (roi_dst r) = true.
Proof. exact paste_disjoint. Qed.
Print Assumptions C03_same_crs_paste_disjoint_empty.

(** * scale and read_shrink (same CRS, both paths) *)
Theorem C03_scale_and_read_shrink :
  forall c ss ds A F ttol stol padding align r,
  reproject_linear c ss ds A F ttol stol padding align = Ok r -> 0 < c_rs c ->
  let sx := fst (scale_xy r) in let sy := snd (scale_xy r) in
  0 < sx /\ 0 < sy /\
  (* sx = length of the image of a unit x step, sx*sy = area ratio *)
  sx * sx == aa A * aa A + ad A * ad A /\ sx * sy == Qabs (aa A * ae A - ab A * ad A) /\
  (* without rotation/shear: the per-axis pixel-size ratios *)
  (ab A == 0 -> ad A == 0 -> sx == Qabs (aa A) /\ sy == Qabs (ae A)) /\
  (* scale is the smaller one *)
  (scale r == sx \/ scale r == sy) /\ scale r <= sx /\ scale r <= sy /\
  (* read_shrink: positive integer, 1 below scale 1, else floor(scale) or scale snapped up by < tol *)
  (1 <= read_shrink r)%Z /\ (scale r < 1 -> read_shrink r = 1%Z) /\
  (1 <= scale r -> inject_Z (read_shrink r) - c_rs c < scale r /\ scale r < inject_Z (read_shrink r) + 1).
Proof. exact reproject_scale. Qed.
Print Assumptions C03_scale_and_read_shrink.

Theorem C03_pick_read_scale :
  forall scale tol k, 0 < tol -> pick_read_scale scale tol = Ok k ->
  0 < scale /\ (1 <= k)%Z /\ (scale < 1 -> k = 1%Z) /\
  (1 <= scale -> inject_Z k - tol < scale /\ scale < inject_Z k + 1).
Proof. exact pick_read_scale_spec. Qed.
Print Assumptions C03_pick_read_scale.

(** * different CRS: the point transforms and the local scale estimate are oracles *)
Section CrossCRS.
  Variables (back fwd : ptrans) (scale_at : Q * Q -> res (Q * Q)).
  Variables (c : consts) (ss ds : shape2) (padding align : option Z).

  (** Not dischargeable without a model of PROJ: the geometric content of the 5-points-per-side
      heuristic.  Tested numerically by the harness (tools/props/c03.py, predicate reproject_crs). *)
  Hypothesis H_boundary_encloses :
    boundary_encloses back fwd ss ds (pad_default padding) (norm_align align).

  Theorem C03_cross_crs_inclusion_conditional :
    forall r,
    reproject_nonlinear c back fwd scale_at ss ds padding align = Ok r ->
    (0 <= fst ss)%Z -> (0 <= snd ss)%Z -> (0 <= fst ds)%Z -> (0 <= snd ds)%Z ->
    (0 <= pad_default padding)%Z -> align_ok (norm_align align) ->
    forall dy dx p, (0 <= dy < fst ds)%Z -> (0 <= dx < snd ds)%Z ->
      back (pix_center dy dx) = Some p ->
      0 <= fst p -> fst p < inject_Z (snd ss) -> 0 <= snd p -> snd p < inject_Z (fst ss) ->
      in_roi (roi_dst r) dy dx /\ in_roi (roi_src r) (Qfloor (snd p)) (Qfloor (fst p)).
  Proof.
    exact (fun r Hr S1 S2 D1 D2 Hp Ha =>
             nonlinear_inclusion c back fwd scale_at ss ds padding align r Hr S1 S2 D1 D2 Hp Ha H_boundary_encloses).
  Qed.
End CrossCRS.
Print Assumptions C03_cross_crs_inclusion_conditional.

(** unconditional parts for different CRSs (any oracle) *)
Theorem C03_cross_crs_within :
  forall c back fwd scale_at ss ds padding align r,
  reproject_nonlinear c back fwd scale_at ss ds padding align = Ok r ->
  (0 <= fst ss)%Z -> (0 <= snd ss)%Z -> (0 <= fst ds)%Z -> (0 <= snd ds)%Z ->
  paste_ok r = false /\
  (0 <= fst (fst (roi_src r)) <= fst ss /\ 0 <= snd (fst (roi_src r)) <= fst ss /\
   0 <= fst (snd (roi_src r)) <= snd ss /\ 0 <= snd (snd (roi_src r)) <= snd ss)%Z /\
  (0 <= fst (fst (roi_dst r)) <= fst ds /\ 0 <= snd (fst (roi_dst r)) <= fst ds /\
   0 <= fst (snd (roi_dst r)) <= snd ds /\ 0 <= snd (snd (roi_dst r)) <= snd ds)%Z.
Proof. exact nonlinear_within. Qed.
Print Assumptions C03_cross_crs_within.

Theorem C03_cross_crs_ordered :
  forall c back fwd scale_at ss ds padding align r,
  reproject_nonlinear c back fwd scale_at ss ds padding align = Ok r ->
  (0 <= fst ss)%Z -> (0 <= snd ss)%Z -> (0 <= fst ds)%Z -> (0 <= snd ds)%Z ->
  (0 <= pad_default padding)%Z -> align_ok (norm_align align) ->
  roi_ordered (roi_src r) /\ roi_ordered (roi_dst r).
Proof. exact nonlinear_ordered. Qed.
Print Assumptions C03_cross_crs_ordered.

Theorem C03_cross_crs_separated_empty :
  forall c back fwd scale_at ss ds padding align r,
  reproject_nonlinear c back fwd scale_at ss ds padding align = Ok r ->
  (0 <= fst ss)%Z -> (0 <= snd ss)%Z -> (0 <= pad_default padding)%Z ->
  let pts := map back (boundary_pts ((0%Z, fst ds), (0%Z, snd ds)) 5) in
  axis_sep (xs_of pts) (snd ss) (pad_default padding) None \/
  axis_sep (ys_of pts) (fst ss) (pad_default padding) None ->
  roi_empty (roi_src r) = true /\ roi_dst r = ((0, 0), (0, 0))%Z /\ read_shrink r = 1%Z /\ scale r = 0.
Proof. exact nonlinear_separated. Qed.
Print Assumptions C03_cross_crs_separated_empty.

Theorem C03_cross_crs_scale :
  forall c back fwd scale_at ss ds padding align r,
  reproject_nonlinear c back fwd scale_at ss ds padding align = Ok r -> 0 < c_rs c ->
  (roi_empty (roi_dst r) = true -> read_shrink r = 1%Z /\ scale r = 0) /\
  (roi_empty (roi_dst r) = false ->
     (scale r == fst (scale_xy r) \/ scale r == snd (scale_xy r)) /\
     scale r <= fst (scale_xy r) /\ scale r <= snd (scale_xy r) /\ 0 < scale r /\
     (1 <= read_shrink r)%Z /\ (scale r < 1 -> read_shrink r = 1%Z) /\
     (1 <= scale r -> inject_Z (read_shrink r) - c_rs c < scale r /\ scale r < inject_Z (read_shrink r) + 1)).
Proof. exact nonlinear_scale. Qed.
Print Assumptions C03_cross_crs_scale.

(** * Non-vacuity: concrete instances (evaluated, not assumed) *)
Definition cdef : consts := mkConsts (1 # 10000000000) (1 # 100000000) (1 # 1000).

(** mirrored, fractional scale: 8 source pixels, 5 destination pixels, x_s = -3/2 x_d + 7 *)
Example C03_ex_axis : axis_overlap 8 5 (-(3#2)) 7 = Ok ((0, 7), (0, 5))%Z.
Proof. vm_compute. reflexivity. Qed.

(** sampled path: 90 degree rotation with a shift, default padding 1 *)
Example C03_ex_sampled :
  let A := mkAff 0 (-(1)) 8 1 0 (-(2)) in
  let F := mkAff 0 1 2 (-(1)) 0 8 in
  inverse_of F A /\
  exists r, reproject_linear cdef (10, 10)%Z (6, 4)%Z A F (1#20) (1#1000) None None = Ok r /\
            paste_ok r = false /\ roi_src r = ((0, 3), (1, 9))%Z /\ roi_dst r = ((0, 6), (2, 4))%Z.
Proof.
  split.
  - intros [x y]. unfold pt_eq, aff_apply. cbn [fst snd aa ab ac ad ae af]. split; ring.
  - eexists. split; [vm_compute; reflexivity|]. cbn. auto.
Qed.

(** paste path with read_shrink 2, mirrored in y, sub-pixel residue 1/32 below ttol = 1/20 *)
Example C03_ex_paste :
  exists r, reproject_linear cdef (9, 12)%Z (4, 5)%Z (mkAff 2 0 (2 + (1#16)) 0 (-(2)) 10) (mkAff (1#2) 0 0 0 (-(1#2)) 5)
                             (1#20) (1#1000) None None = Ok r /\
            paste_ok r = true /\ read_shrink r = 2%Z /\
            roi_src r = ((2, 10), (2, 12))%Z /\ roi_dst r = ((0, 4), (0, 5))%Z /\
            tol_ok cdef (1#1000).
Proof.
  eexists. split; [vm_compute; reflexivity|]. cbn. repeat split; try reflexivity; unfold half; cbn; auto with qarith; try discriminate.
Qed.

(** the enclosing hypothesis is satisfiable: a shifted half-scale map standing in for the oracle *)
Example C03_ex_boundary_encloses :
  let back := aff_pt (mkAff (1#2) 0 1 0 (1#2) 1) in
  let fwd := aff_pt (mkAff 2 0 (-(2)) 0 2 (-(2))) in
  boundary_encloses back fwd (4, 4)%Z (2, 2)%Z 1%Z None /\
  exists r, reproject_nonlinear cdef back fwd (fun _ => Ok (1#2, 1#2)) (4, 4)%Z (2, 2)%Z None None = Ok r /\
            roi_src r = ((0, 3), (0, 3))%Z /\ roi_dst r = ((0, 2), (0, 2))%Z /\ read_shrink r = 1%Z.
Proof.
  split.
  - unfold boundary_encloses. intros dy dx p Hdy Hdx Hb _ _ _ _.
    assert (Cy : dy = 0%Z \/ dy = 1%Z) by (cbn in Hdy; lia).
    assert (Cx : dx = 0%Z \/ dx = 1%Z) by (cbn in Hdx; lia).
    destruct Cy as [-> | ->]; destruct Cx as [-> | ->]; injection Hb as <-; vm_compute; intuition discriminate.
  - eexists. split; [vm_compute; reflexivity|]. cbn. auto.
Qed.

(** Tie to the source: the definitions regenerated by tools/py2v from the current odc/geo/overlap.py and odc/geo/math.py (coq/Gen/MathGen.v, rewritten on every run) are the model (Model/Overlap.v) the theorems above are stated on, up to the error kind. *)
From OG Require Proofs.MathGenEquivO.
Theorem C03_source_is_model : OG.Proofs.MathGenEquivO.overlap_source_is_model.
Proof. exact OG.Proofs.MathGenEquivO.overlap_source_is_model_holds. Qed.
Print Assumptions C03_source_is_model.
