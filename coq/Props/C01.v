(** Property C01 — operations never silently mix coordinate reference systems.
    Only statements (closed by [exact]) + [Print Assumptions].

    [crs] with [crs_eqb] (odc.geo.crs.CRS.__eq__: identity, EPSG code, string, pyproj
    equality) is an arbitrary type with an arbitrary boolean relation: NOTHING is assumed
    about it (not even reflexivity) — each theorem names the comparison the code makes, in
    the operand order the code uses.  A tag is [option crs]; [tag_ne crs_eqb a b] is Python's
    [a != b]: False for None/None, True for None/Some and Some/None, [negb (crs_eqb x y)]
    otherwise.  [G] are raw shapely geometries, [R] the non-geometry results of shapely;
    every raw shapely function ([f], [method], [fsplit], [fmulti], [funion], [finter]) is
    universally quantified.  [Err ECrs] is CRSMismatchError, [Err EValue] a plain ValueError;
    both satisfy [is_value_error]. *)
From Coq Require Import ZArith QArith List Bool.
From OG Require Import Base.Result Base.Aff2 Model.Tagged Model.CrsGate Model.GridOps Proofs.CrsGateProofs.
Import ListNotations.

(** ** the 16 decorated binary methods (predicates, set operations, operators): CRSs differ ->
    CRSMismatchError; equal -> exactly shapely's answer on the raw shapes, geometries re-tagged
    with the first operand's CRS, other results (bool) passed through *)
Theorem C01_wrapped_binary_method :
  forall (crs : Type) (crs_eqb : crs -> crs -> bool) (G R : Type) (f : G -> G -> G + R) (a b : geom crs G),
    binop crs_eqb f a b =
    (if tag_ne crs_eqb (gtag a) (gtag b) then Err ECrs
     else Ok (retag (gtag a) (f (ggeom a) (ggeom b)))).
Proof. exact binop_spec. Qed.
Print Assumptions C01_wrapped_binary_method.

(** the decorator itself, for a method with any number of operands *)
Theorem C01_wrap_shapely_any_arity :
  forall (crs : Type) (crs_eqb : crs -> crs -> bool) (G R : Type)
         (method : G -> list G -> G + R) (first : geom crs G) (rest : list (geom crs G)),
    (mismatch_after crs_eqb (gtag first) (map gtag rest) -> wrapped crs_eqb method first rest = Err ECrs) /\
    (~ mismatch_after crs_eqb (gtag first) (map gtag rest) ->
       wrapped crs_eqb method first rest = Ok (retag (gtag first) (method (ggeom first) (map ggeom rest)))).
Proof. exact wrapped_spec. Qed.
Print Assumptions C01_wrap_shapely_any_arity.

Theorem C01_wrap_shapely_never_mixes :
  forall (crs : Type) (crs_eqb : crs -> crs -> bool) (G R : Type)
         (method : G -> list G -> G + R) (first : geom crs G) (rest : list (geom crs G)) (w : wres crs G R),
    wrapped crs_eqb method first rest = Ok w ->
    (forall a, In a rest -> tag_ne crs_eqb (gtag first) (gtag a) = false) /\
    w = retag (gtag first) (method (ggeom first) (map ggeom rest)).
Proof. exact wrapped_ok_inv. Qed.
Print Assumptions C01_wrap_shapely_never_mixes.

(** ** Geometry.split *)
Theorem C01_split :
  forall (crs : Type) (crs_eqb : crs -> crs -> bool) (G : Type) (fsplit : G -> G -> list G)
         (self splitter : geom crs G),
    split crs_eqb fsplit self splitter =
    (if tag_ne crs_eqb (gtag splitter) (gtag self) then Err ECrs
     else Ok (map (fun g => mkGeom g (gtag self)) (fsplit (ggeom self) (ggeom splitter)))).
Proof. exact split_spec. Qed.
Print Assumptions C01_split.

(** ** n-ary folds: Err iff some element's CRS differs from the first, lists of any length *)
Theorem C01_common_crs_multigeom :
  forall (crs : Type) (crs_eqb : crs -> crs -> bool) (G : Type) (fmulti : list G -> G)
         (first : geom crs G) (rest : list (geom crs G)),
    (mismatch_before crs_eqb (gtag first) (map gtag rest) ->
       common_crs crs_eqb (first :: rest) = Err ECrs /\ multigeom crs_eqb fmulti (first :: rest) = Err ECrs) /\
    (~ mismatch_before crs_eqb (gtag first) (map gtag rest) ->
       common_crs crs_eqb (first :: rest) = Ok (gtag first) /\
       multigeom crs_eqb fmulti (first :: rest) = Ok (mkGeom (fmulti (map ggeom (first :: rest))) (gtag first))).
Proof. exact common_crs_multigeom_spec. Qed.
Print Assumptions C01_common_crs_multigeom.

Theorem C01_unary_union :
  forall (crs : Type) (crs_eqb : crs -> crs -> bool) (G : Type) (funion : list G -> G)
         (first : geom crs G) (rest : list (geom crs G)),
    (mismatch_after crs_eqb (gtag first) (map gtag rest) ->
       unary_union crs_eqb funion (first :: rest) = Err ECrs) /\
    (~ mismatch_after crs_eqb (gtag first) (map gtag rest) ->
       unary_union crs_eqb funion (first :: rest) =
       Ok (Some (mkGeom (funion (map ggeom (first :: rest))) (gtag first)))).
Proof. exact unary_union_spec. Qed.
Print Assumptions C01_unary_union.

(** unary_intersection = reduce(Geometry.intersection): under shapely's contract that the
    intersection of two geometries is a geometry, the result is the left fold of the raw
    intersection, tagged with the first CRS *)
Theorem C01_unary_intersection :
  forall (crs : Type) (crs_eqb : crs -> crs -> bool) (G R : Type) (finter : G -> G -> G + R),
    (forall x y, exists g, finter x y = inl g) ->
  forall (first : geom crs G) (rest : list (geom crs G)),
    (mismatch_after crs_eqb (gtag first) (map gtag rest) ->
       unary_intersection crs_eqb finter (first :: rest) = Err ECrs) /\
    (~ mismatch_after crs_eqb (gtag first) (map gtag rest) ->
       unary_intersection crs_eqb finter (first :: rest) =
       Ok (mkGeom (fold_left (raw_inter finter) (map ggeom rest) (ggeom first)) (gtag first))).
Proof. exact unary_intersection_spec. Qed.
Print Assumptions C01_unary_intersection.

(** ... and with no contract at all on shapely no value is ever built across a mismatch *)
Theorem C01_unary_intersection_never_mixes :
  forall (crs : Type) (crs_eqb : crs -> crs -> bool) (G R : Type) (finter : G -> G -> G + R)
         (rest : list (geom crs G)) (first r : geom crs G),
    unary_intersection crs_eqb finter (first :: rest) = Ok r ->
    (forall a, In a rest -> tag_ne crs_eqb (gtag first) (gtag a) = false) /\ gtag r = gtag first.
Proof. exact unary_intersection_ok_inv. Qed.
Print Assumptions C01_unary_intersection_never_mixes.

(** module-level intersects(a, b) *)
Theorem C01_intersects_function :
  forall (crs : Type) (crs_eqb : crs -> crs -> bool) (G R : Type) (fint ftouch : G -> G -> G + R)
         (truthy : wres crs G R -> bool) (a b : geom crs G),
    (tag_ne crs_eqb (gtag a) (gtag b) = true -> intersects2 crs_eqb fint ftouch truthy a b = Err ECrs) /\
    (tag_ne crs_eqb (gtag a) (gtag b) = false ->
       intersects2 crs_eqb fint ftouch truthy a b =
       Ok (truthy (retag (gtag a) (fint (ggeom a) (ggeom b))) &&
           negb (truthy (retag (gtag a) (ftouch (ggeom a) (ggeom b)))))).
Proof. exact intersects2_spec. Qed.
Print Assumptions C01_intersects_function.

(** ** bbox_union / bbox_intersection (and BoundingBox | &), any coordinate type and min/max:
    CRSMismatchError iff some box after the first differs from the first; otherwise a box
    tagged with the first CRS; an Ok value is never built from a stream with a mismatch *)
Theorem C01_bbox_folds :
  forall (crs : Type) (crs_eqb : crs -> crs -> bool) (A : Type) (lo hi : A -> A -> A)
         (first : bbox crs A) (rest : list (bbox crs A)),
    (box_mismatch crs_eqb (bcrs first) rest <-> bbox_union crs_eqb lo hi (first :: rest) = Err ECrs) /\
    (box_mismatch crs_eqb (bcrs first) rest <-> bbox_intersection crs_eqb lo hi (first :: rest) = Err ECrs) /\
    (~ box_mismatch crs_eqb (bcrs first) rest ->
       exists u i, bbox_union crs_eqb lo hi (first :: rest) = Ok u /\
                   bbox_intersection crs_eqb lo hi (first :: rest) = Ok i /\
                   bcrs u = bcrs first /\ bcrs i = bcrs first).
Proof. exact bbox_folds_gate. Qed.
Print Assumptions C01_bbox_folds.

Theorem C01_bbox_folds_never_mix :
  forall (crs : Type) (crs_eqb : crs -> crs -> bool) (A : Type) (lo hi : A -> A -> A)
         (first : bbox crs A) (rest : list (bbox crs A)) (u : bbox crs A),
    bbox_union crs_eqb lo hi (first :: rest) = Ok u \/ bbox_intersection crs_eqb lo hi (first :: rest) = Ok u ->
    (forall x, In x rest -> tag_ne crs_eqb (bcrs first) (bcrs x) = false) /\ bcrs u = bcrs first.
Proof. exact bbox_folds_ok_inv. Qed.
Print Assumptions C01_bbox_folds_never_mix.

(** ** GeoBox operations (all through pixel_translation): a CRS difference is a ValueError
    before any grid arithmetic; union/intersection of any number of GeoBoxes never return a
    value built from a list containing a mismatch *)
Theorem C01_geobox_pair_mismatch :
  forall (crs : Type) (crs_eqb : crs -> crs -> bool) (atol rtol tol : Q) (fx : fixes) (a b : geobox crs),
    tag_ne crs_eqb (gcrs b) (gcrs a) = true ->
    pixel_translation crs_eqb atol rtol b a = Err EValue /\
    bbox_in_pix crs_eqb atol rtol tol b a = Err EValue /\
    overlap_roi crs_eqb fx atol rtol tol a b = Err EValue /\
    snap_to crs_eqb atol rtol tol a b = Err EValue.
Proof. exact geobox_pair_mismatch. Qed.
Print Assumptions C01_geobox_pair_mismatch.

Theorem C01_geobox_union_intersection_never_mix :
  forall (crs : Type) (crs_eqb : crs -> crs -> bool) (atol rtol tol : Q)
         (ref : geobox crs) (gs : list (geobox crs)) (u : geobox crs),
    geobox_union crs_eqb atol rtol tol (ref :: gs) = Ok u \/
    geobox_intersection crs_eqb atol rtol tol (ref :: gs) = Ok u ->
    (forall g, In g (ref :: gs) -> tag_ne crs_eqb (gcrs g) (gcrs ref) = false) /\ gcrs u = gcrs ref.
Proof. exact geobox_nary_ok_inv. Qed.
Print Assumptions C01_geobox_union_intersection_never_mix.

Theorem C01_geobox_operators_mismatch :
  forall (crs : Type) (crs_eqb : crs -> crs -> bool) (atol rtol tol : Q) (a b : geobox crs),
    tag_ne crs_eqb (gcrs b) (gcrs a) = true -> ~ (aff_det (gaff a) == 0)%Q ->
    gbox_or crs_eqb atol rtol tol a b = Err EValue /\ gbox_and crs_eqb atol rtol tol a b = Err EValue.
Proof. exact geobox_binary_mismatch. Qed.
Print Assumptions C01_geobox_operators_mismatch.

(** both error kinds are ValueErrors (CRSMismatchError subclasses ValueError: checked on
    the source by the static obligation of the check) *)
Theorem C01_errors_are_value_errors : is_value_error ECrs = true /\ is_value_error EValue = true.
Proof. exact errors_are_value_errors. Qed.
Print Assumptions C01_errors_are_value_errors.

(** when [crs_eqb] is symmetric (pyproj equality is; validated by the check on its tag set)
    the gate of a binary method does not depend on the operand order *)
Theorem C01_gate_symmetric :
  forall (crs : Type) (crs_eqb : crs -> crs -> bool) (G R : Type) (f f' : G -> G -> G + R) (a b : geom crs G),
    (forall x y, crs_eqb x y = crs_eqb y x) ->
    is_ok (binop crs_eqb f a b) = is_ok (binop crs_eqb f' b a).
Proof. exact gate_symmetric. Qed.
Print Assumptions C01_gate_symmetric.

(** ** Non-vacuity: CRSs are integers compared up to parity ("same CRS, other spelling"):
    4326 spelled 0 or 2 are equal, 1 differs, and None differs from everything but None. *)
Open Scope Z_scope.
Definition ex_eqb (x y : Z) : bool := Z.even x && Z.even y || Z.odd x && Z.odd y.
Definition ex_f (x y : Z) : Z + bool := if (x <? 100)%Z then inl (x * 1000 + y)%Z else inr (x <? y)%Z.
Example C01_example :
  binop ex_eqb ex_f (mkGeom 7 (Some 0)) (mkGeom 9 (Some 2)) = Ok (WGeom (mkGeom 7009 (Some 0)))%Z /\
  binop ex_eqb ex_f (mkGeom 700 (Some 0)) (mkGeom 9 (Some 2)) = Ok (WRaw false) /\
  binop ex_eqb ex_f (mkGeom 7 (Some 0)) (mkGeom 9 (Some 1)) = Err ECrs /\
  binop ex_eqb ex_f (mkGeom 7 None) (mkGeom 9 (Some 0)) = Err ECrs /\
  binop ex_eqb ex_f (mkGeom 7 (Some 0)) (mkGeom 9 None) = Err ECrs /\
  binop ex_eqb ex_f (mkGeom 7 None) (mkGeom 9 None) = Ok (WGeom (mkGeom 7009 None))%Z /\
  mismatch_after ex_eqb (Some 0) [Some 2; Some 4; Some 1]%Z /\
  ~ mismatch_after ex_eqb (Some 0) [Some 2; Some 4]%Z /\
  unary_union ex_eqb (fun l => fold_left Z.add l 0%Z)
    [mkGeom 1 (Some 0); mkGeom 2 (Some 2); mkGeom 3 (Some 4)]%Z = Ok (Some (mkGeom 6 (Some 0)))%Z /\
  unary_union ex_eqb (fun l => fold_left Z.add l 0%Z)
    [mkGeom 1 (Some 0); mkGeom 2 (Some 2); mkGeom 3 None]%Z = Err ECrs.
Proof.
  repeat split; try (vm_compute; reflexivity).
  - exists (Some 1%Z). split; [simpl; auto | reflexivity].
  - intros (x & [<- | [<- | []]] & H); vm_compute in H; discriminate.
Qed.
