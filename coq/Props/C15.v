(** Property C15 — GeoTIFF/COG written through GDAL reads back identical:
    the decision logic of odc/geo/cog/_rio.py (Model/RioCog.v).  Only
    statements, each closed by [exact] of a lemma from Proofs/, followed by
    [Print Assumptions].  GDAL's encode/decode is an oracle: it appears only as
    Section variables with an explicit contract (validated by round-trip
    testing in tools/props/c15.py).

    [ravel shape idx] is numpy's row-major position of element [idx] in an
    array of shape [shape]; [src_index l dims b y x] is the position, in the
    caller's array, of the sample that ends up in output band b, row y,
    column x; bands, rows and columns are 0-based here. *)
From Coq Require Import ZArith List Bool Lia Permutation.
From OG Require Import Base.Result Base.ListSel Model.Roi Model.CogLayout Model.RioCog
  Proofs.CogLayoutProofs Proofs.RioCogProofs.
Import ListNotations.
Open Scope Z_scope.

(** ** 1. band layout: accepted shapes and where every sample goes *)

(** 2-d (Y, X); [ya] is the Y axis position handed over by write_cog (absent or 0 for such an array) *)
Theorem C15_layout_2d :
  forall h w ya b y x,
    (ya <> Some 1 -> norm_layout [h; w] (h, w) ya = Ok (L2d, (1, h, w))) /\
    src_index L2d (1, h, w) b y x = ravel [h; w] [y; x].
Proof. exact layout_2d_thm. Qed.
Print Assumptions C15_layout_2d.

(** 2-d with dims ordered (X, Y) (Y axis position 1, since fix 22d302d): the (w, h) array is
    transposed, input sample (x, y) becomes row y, column x *)
Theorem C15_layout_2d_xy :
  forall h w b y x,
    norm_layout [w; h] (h, w) (Some 1) = Ok (L2dT, (1, h, w)) /\
    src_index L2dT (1, h, w) b y x = ravel [w; h] [x; y].
Proof. exact layout_2d_xy_thm. Qed.
Print Assumptions C15_layout_2d_xy.

(** band-last (Y, X, B): input sample (y, x, b) becomes band b, row y, column x *)
Theorem C15_layout_band_last :
  forall h w nb b y x,
    norm_layout [h; w; nb] (h, w) None = Ok (LBandLast, (nb, h, w)) /\
    norm_layout [h; w; nb] (h, w) (Some 0) = Ok (LBandLast, (nb, h, w)) /\
    src_index LBandLast (nb, h, w) b y x = ravel [h; w; nb] [y; x; b].
Proof. exact layout_band_last_thm. Qed.
Print Assumptions C15_layout_band_last.

(** band-first (B, Y, X): kept as is.  With the shape-based guess this needs
    (B, Y) <> (Y, X) — a cube-shaped array is taken for band-last, see
    C15_layout_guess_ambiguous_refuted — with the Y axis supplied by
    write_cog / write_cog_layers it holds for every shape. *)
Theorem C15_layout_band_first :
  forall nb h w b y x,
    ((nb, h) <> (h, w) -> norm_layout [nb; h; w] (h, w) None = Ok (LBandFirst, (nb, h, w))) /\
    norm_layout [nb; h; w] (h, w) (Some 1) = Ok (LBandFirst, (nb, h, w)) /\
    src_index LBandFirst (nb, h, w) b y x = ravel [nb; h; w] [b; y; x].
Proof. exact layout_band_first_thm. Qed.
Print Assumptions C15_layout_band_first.

(** the shape-only guess cannot tell a cube-shaped band-first array from a
    band-last one (the witness of fix 1cabe7b: the public entry points now pass
    the Y axis, C15_layout_band_first) *)
Theorem C15_layout_guess_ambiguous_refuted :
  exists nb h w, norm_layout [nb; h; w] (h, w) None <> Ok (LBandFirst, (nb, h, w)).
Proof. exists 4, 4, 4. vm_compute. discriminate. Qed.
Print Assumptions C15_layout_guess_ambiguous_refuted.

(** complete decision table: which inputs are accepted as what, which are
    rejected with ValueError (3-d shape mismatch, wrong ndim) and which with
    AssertionError (2-d mismatch; band-last forced by the caller but mismatching) *)
Theorem C15_layout_decision_table :
  forall shape g ya,
  match norm_layout shape g ya with
  | Ok (L2d, dims) => exists h w, shape = [h; w] /\ g = (h, w) /\ dims = (1, h, w) /\ ya <> Some 1
  | Ok (L2dT, dims) => exists h w, shape = [w; h] /\ g = (h, w) /\ dims = (1, h, w) /\ ya = Some 1
  | Ok (LBandLast, dims) =>
      exists h w nb, shape = [h; w; nb] /\ g = (h, w) /\ dims = (nb, h, w) /\ (ya = None \/ ya = Some 0)
  | Ok (LBandFirst, dims) =>
      exists nb h w, shape = [nb; h; w] /\ g = (h, w) /\ dims = (nb, h, w) /\
                     (ya = None /\ (nb, h) <> (h, w) \/ exists v, ya = Some v /\ v <> 0)
  | Err EValue =>
      (length shape <> 2%nat /\ length shape <> 3%nat) \/
      exists d0 d1 d2, shape = [d0; d1; d2] /\ g <> (d1, d2) /\
                       (ya = None /\ g <> (d0, d1) \/ exists v, ya = Some v /\ v <> 0)
  | Err (EAssert _) =>
      (exists d0 d1, shape = [d0; d1] /\ (ya <> Some 1 /\ g <> (d0, d1) \/ ya = Some 1 /\ g <> (d1, d0))) \/
      (exists d0 d1 d2, shape = [d0; d1; d2] /\ ya = Some 0 /\ g <> (d0, d1))
  | Err _ => False
  end.
Proof. exact norm_layout_cases. Qed.
Print Assumptions C15_layout_decision_table.

(** the layout map is a bijection between output samples and input positions *)
Theorem C15_layout_map_injective :
  forall l nb h w b y x b' y' x',
    layout_dims_ok l (nb, h, w) ->
    sample_in_range (nb, h, w) b y x -> sample_in_range (nb, h, w) b' y' x' ->
    src_index l (nb, h, w) b y x = src_index l (nb, h, w) b' y' x' ->
    (b, y, x) = (b', y', x').
Proof. exact src_index_inj. Qed.
Print Assumptions C15_layout_map_injective.

Theorem C15_layout_map_onto :
  forall l nb h w,
    layout_dims_ok l (nb, h, w) -> 0 <= nb -> 0 <= h -> 0 <= w ->
    (forall b y x, sample_in_range (nb, h, w) b y x -> 0 <= src_index l (nb, h, w) b y x < nb * h * w) /\
    (forall t, 0 <= t < nb * h * w ->
       exists b y x, sample_in_range (nb, h, w) b y x /\ src_index l (nb, h, w) b y x = t) /\
    Permutation (readback_indices l (nb, h, w)) (zrange (nb * h * w)).
Proof. exact layout_map_onto_thm. Qed.
Print Assumptions C15_layout_map_onto.

Theorem C15_accepted_layouts_are_well_formed :
  forall shape g ya l dims, norm_layout shape g ya = Ok (l, dims) -> layout_dims_ok l dims.
Proof. exact norm_layout_dims_ok. Qed.
Print Assumptions C15_accepted_layouts_are_well_formed.

(** ** 2. block sizes: positive multiples of 16, shrunk to align_up(dim, 16) for
    an image smaller than the block (which then is covered by one block) *)
Theorem C15_block_sizes :
  forall blocksize w h, 1 <= cog_blocksize blocksize ->
  let '(bx, bh) := default_cog_block blocksize w h in
  0 < bx /\ bx mod 16 = 0 /\ 0 < bh /\ bh mod 16 = 0 /\
  bx = (if (0 <? w) && (w <? cog_blocksize blocksize) then align_up w 16 else align_up (cog_blocksize blocksize) 16) /\
  bh = (if (0 <? h) && (h <? cog_blocksize blocksize) then align_up h 16 else align_up (cog_blocksize blocksize) 16).
Proof. exact default_cog_block_spec. Qed.
Print Assumptions C15_block_sizes.

Theorem C15_block_sizes_cover_small_images :
  forall blocksize w h, 1 <= cog_blocksize blocksize -> 1 <= w -> 1 <= h ->
  let '(bx, bh) := default_cog_block blocksize w h in
  Z.min w (cog_blocksize blocksize) <= bx <= align_up (cog_blocksize blocksize) 16 /\
  Z.min h (cog_blocksize blocksize) <= bh <= align_up (cog_blocksize blocksize) 16.
Proof. exact default_cog_block_small. Qed.
Print Assumptions C15_block_sizes_cover_small_images.

(** ** 3. requested overview levels: the caller's list, else the default table *)
Theorem C15_overview_levels :
  forall req w h,
    (forall l, req = Some l -> overview_levels req w h = l) /\
    (req = None -> Z.min w h < 512 -> overview_levels req w h = []) /\
    (req = None -> 512 <= w -> 512 <= h -> overview_levels req w h = [2; 4; 8; 16; 32]).
Proof. exact overview_levels_thm. Qed.
Print Assumptions C15_overview_levels.

Theorem C15_nodata_precedence :
  forall (kw attr : option Z), nodata_of kw attr = match kw with Some v => Some v | None => attr end.
Proof. exact (@nodata_of_spec Z). Qed.
Print Assumptions C15_nodata_precedence.

(** ** 4. overwrite guard *)
Theorem C15_check_write_path :
  forall s p ow,
  match fs_lookup s p, ow with
  | Some _, true =>
      exists s', check_write_path s p ow = (s', Ok tt) /\ fs_lookup s' p = None /\
                 forall q, q <> p -> fs_lookup s' q = fs_lookup s q
  | Some _, false => check_write_path s p ow = (s, Err EIO)
  | None, _ => check_write_path s p ow = (s, Ok tt)
  end.
Proof. exact check_write_path_spec. Qed.
Print Assumptions C15_check_write_path.

Theorem C15_unlinked_iff_overwrite :
  forall s p ow,
    fs_lookup (fst (check_write_path s p ow)) p <> fs_lookup s p <-> (fs_exists s p = true /\ ow = true).
Proof. exact check_write_path_changes_iff. Qed.
Print Assumptions C15_unlinked_iff_overwrite.

(** _write_cog: a rejected layout leaves the file system alone; an existing
    destination without overwrite gives IOError with the state unchanged;
    otherwise the destination holds the new content and nothing else changed *)
Theorem C15_destination_replaced_only_on_overwrite :
  forall s shape g ya dest ow content,
  match norm_layout shape g ya with
  | Err e => write_cog_fs s shape g ya dest ow content = (s, Err e)
  | Ok _ =>
      match dest with
      | None => write_cog_fs s shape g ya dest ow content = (s, Ok tt)
      | Some p =>
          if fs_exists s p && negb ow
          then write_cog_fs s shape g ya dest ow content = (s, Err EIO)
          else exists s', write_cog_fs s shape g ya dest ow content = (s', Ok tt) /\
                          fs_lookup s' p = Some content /\
                          forall q, q <> p -> fs_lookup s' q = fs_lookup s q
      end
  end.
Proof. exact write_cog_fs_spec. Qed.
Print Assumptions C15_destination_replaced_only_on_overwrite.

Theorem C15_layers_guard :
  forall s n ok p content, n <> 0 -> fs_exists s p = true ->
    write_cog_layers_fs s n ok (Some p) false content = (s, Err EIO).
Proof. exact write_cog_layers_fs_guard. Qed.
Print Assumptions C15_layers_guard.

(** ** 5. read-back, conditional on the GDAL oracle: if decoding what GDAL
    encoded returns the band-first array it was given, then the value read at
    band b, row y, column x is the caller's sample named by the layout. *)
Section WithGDAL.
  Context {A File : Type}.
  Variable gdal_encode : (Z * Z * Z) -> (Z -> Z -> Z -> A) -> File.   (* dims, band/row/col -> value *)
  Variable gdal_decode : File -> Z -> Z -> Z -> A.
  Hypothesis gdal_roundtrip :
    forall dims f b y x, sample_in_range dims b y x -> gdal_decode (gdal_encode dims f) b y x = f b y x.

  Variable pix : Z -> A.                   (* the caller's array, by flat row-major position *)

  Theorem C15_readback_is_input :
    forall shape g ya l dims b y x,
      norm_layout shape g ya = Ok (l, dims) -> sample_in_range dims b y x ->
      gdal_decode (gdal_encode dims (fun b y x => pix (src_index l dims b y x))) b y x =
        pix (src_index l dims b y x).
  Proof. exact (readback_generic gdal_encode gdal_decode gdal_roundtrip pix). Qed.
End WithGDAL.
Print Assumptions C15_readback_is_input.

(** ** 6. non-vacuity *)
Example C15_example_band_last :
  write_layout [2; 3; 2] (2, 3) None = Ok ((2, 2, 3), [0; 2; 4; 6; 8; 10; 1; 3; 5; 7; 9; 11]).
Proof. vm_compute. reflexivity. Qed.

Example C15_example_overwrite :
  let s := [(7, 100)] in
  write_cog_fs s [5; 7] (5, 7) None (Some 7) false 200 = (s, Err EIO) /\
  write_cog_fs s [5; 7] (5, 7) None (Some 7) true 200 = ([(7, 200)], Ok tt) /\
  write_cog_fs s [5; 7] (7, 5) None (Some 7) true 200 = (s, Err (EAssert 124)) /\
  default_cog_block None 20 600 = (32, 512) /\
  overview_levels None 512 600 = [2; 4; 8; 16; 32] /\ overview_levels None 511 600 = [].
Proof. vm_compute. repeat split; reflexivity. Qed.

(** Tie to the source: adjust_blocksize and num_overviews (its while loop as a fixpoint on explicit
    fuel) as regenerated by tools/py2v from the current odc/geo/cog/_shared.py (coq/Gen/CogGen.v,
    rewritten on every run) are the model (Model/CogLayout.v) the theorems above are stated on. *)
From OG Require Proofs.CogGenEquiv.
Theorem C15_source_is_model : OG.Proofs.CogGenEquiv.cog_source_is_model.
Proof. exact OG.Proofs.CogGenEquiv.cog_source_is_model_holds. Qed.
Print Assumptions C15_source_is_model.
