(** Property C16 — GeoBox and bounding-box set operations respect the common pixel grid.
    Only statements (closed by [exact]) + [Print Assumptions].

    Vocabulary (Model/GridOps.v): [geobox crs] = (shape, affine, CRS tag); [crs] and
    its equality [crs_eqb] are arbitrary (nothing is assumed about [crs_eqb]: the
    hypotheses say which tag comparisons are False).  [on_grid base g p]: [g] has the shape
    of the pixel rectangle [p] and its affine equals [base * translation(px p, py p)] with
    integer [px p], [py p] — "GeoBoxes derived from a base grid by integer pixel shifts and
    arbitrary shapes"; [base] is ANY invertible affine (north-up, mirrored, rotated, sheared).
    [atol], [rtol] are numpy.isclose's tolerances, [tol] the near-integer tolerance
    (all three any rationals with 0 <= atol, 0 <= rtol, 0 < tol).
    Floats are exact rationals. *)
From Coq Require Import ZArith QArith Qround Qabs Qminmax List Bool Lia.
From OG Require Import Base.Result Base.ListSel Base.Aff2 Model.Tagged Model.GridOps Model.Roi Proofs.GridOpsProofs.
Import ListNotations.
Open Scope Z_scope.

(** ** pixel translation on a common grid is exactly the integer shift *)
Theorem C16_pixel_translation_is_integer_shift :
  forall (crs : Type) (crs_eqb : crs -> crs -> bool) (atol rtol : Q),
    (0 <= atol)%Q -> (0 <= rtol)%Q ->
  forall base : aff, ~ (aff_det base == 0)%Q ->
  forall (a b : geobox crs) (pa pb : pbox),
    on_grid base a pa -> on_grid base b pb -> tag_ne crs_eqb (gcrs a) (gcrs b) = false ->
    exists t : Q * Q,
      pixel_translation crs_eqb atol rtol a b = Ok t /\
      (fst t == inject_Z (px pa - px pb))%Q /\ (snd t == inject_Z (py pa - py pb))%Q.
Proof. exact pixel_translation_on_grid. Qed.
Print Assumptions C16_pixel_translation_is_integer_shift.

Theorem C16_bbox_in_pixel_domain_on_grid :
  forall (crs : Type) (crs_eqb : crs -> crs -> bool) (atol rtol tol : Q),
    (0 <= atol)%Q -> (0 <= rtol)%Q -> (0 < tol)%Q ->
  forall base : aff, ~ (aff_det base == 0)%Q ->
  forall (a ref : geobox crs) (pa pr : pbox),
    on_grid base a pa -> on_grid base ref pr -> tag_ne crs_eqb (gcrs a) (gcrs ref) = false ->
    bbox_in_pix crs_eqb atol rtol tol a ref =
    Ok (mkBB (px pa - px pr) (py pa - py pr) (px pa - px pr + pnx pa) (py pa - py pr + pny pa) None).
Proof. exact bbox_in_pix_on_grid. Qed.
Print Assumptions C16_bbox_in_pixel_domain_on_grid.

(** ** union = smallest on-grid GeoBox containing all operands (any number of operands) *)
Theorem C16_union_is_smallest_enclosing :
  forall (crs : Type) (crs_eqb : crs -> crs -> bool) (atol rtol tol : Q),
    (0 <= atol)%Q -> (0 <= rtol)%Q -> (0 < tol)%Q ->
  forall base : aff, ~ (aff_det base == 0)%Q ->
  forall (g0 : geobox crs) (gs : list (geobox crs)) (p0 : pbox) (ps : list pbox),
    Forall2 (on_grid base) (g0 :: gs) (p0 :: ps) -> same_crs crs_eqb (g0 :: gs) ->
    exists (g : geobox crs) (u : pbox),
      geobox_union crs_eqb atol rtol tol (g0 :: gs) = Ok g /\
      on_grid base g u /\ gcrs g = gcrs g0 /\
      (forall p, In p (p0 :: ps) -> rect_incl p u) /\
      (forall v, (forall p, In p (p0 :: ps) -> rect_incl p v) -> rect_incl u v).
Proof. exact geobox_union_on_grid. Qed.
Print Assumptions C16_union_is_smallest_enclosing.

(** ** intersection = exactly the shared pixels, per axis (so also when only one axis is
    empty); sizes never negative *)
Theorem C16_intersection_is_shared_pixels :
  forall (crs : Type) (crs_eqb : crs -> crs -> bool) (atol rtol tol : Q),
    (0 <= atol)%Q -> (0 <= rtol)%Q -> (0 < tol)%Q ->
  forall base : aff, ~ (aff_det base == 0)%Q ->
  forall (g0 : geobox crs) (gs : list (geobox crs)) (p0 : pbox) (ps : list pbox),
    Forall2 (on_grid base) (g0 :: gs) (p0 :: ps) -> same_crs crs_eqb (g0 :: gs) ->
    exists (g : geobox crs) (u : pbox),
      geobox_intersection crs_eqb atol rtol tol (g0 :: gs) = Ok g /\
      on_grid base g u /\ gcrs g = gcrs g0 /\
      0 <= pnx u /\ 0 <= pny u /\
      (forall i, in_cols u i <-> (forall p, In p (p0 :: ps) -> in_cols p i)) /\
      (forall j, in_rows u j <-> (forall p, In p (p0 :: ps) -> in_rows p j)).
Proof. exact geobox_intersection_on_grid. Qed.
Print Assumptions C16_intersection_is_shared_pixels.

(** consequently: pixel-set form, and "a zero in the shape exactly when nothing is shared" *)
Theorem C16_intersection_pixel_set :
  forall (u : pbox) (ps : list pbox),
    0 <= pnx u -> 0 <= pny u ->
    (forall i, in_cols u i <-> (forall p, In p ps -> in_cols p i)) ->
    (forall j, in_rows u j <-> (forall p, In p ps -> in_rows p j)) ->
    (forall i j, in_pix u i j <-> (forall p, In p ps -> in_pix p i j)) /\
    ((pnx u = 0 \/ pny u = 0) <-> (forall i j, ~ in_pix u i j)).
Proof. exact intersection_pixel_set. Qed.
Print Assumptions C16_intersection_pixel_set.

(** ** commutativity and associativity, as equality of (shape, affine) *)
Theorem C16_union_commutative :
  forall (crs : Type) (crs_eqb : crs -> crs -> bool) (atol rtol tol : Q),
    (0 <= atol)%Q -> (0 <= rtol)%Q -> (0 < tol)%Q ->
  forall base : aff, ~ (aff_det base == 0)%Q ->
  forall (a b : geobox crs) (pa pb : pbox),
    on_grid base a pa -> on_grid base b pb -> same_crs crs_eqb [a; b] ->
    exists g h, gbox_or crs_eqb atol rtol tol a b = Ok g /\ gbox_or crs_eqb atol rtol tol b a = Ok h /\
                shape_aff_eq g h.
Proof. exact gbox_or_comm. Qed.
Print Assumptions C16_union_commutative.

Theorem C16_intersection_commutative :
  forall (crs : Type) (crs_eqb : crs -> crs -> bool) (atol rtol tol : Q),
    (0 <= atol)%Q -> (0 <= rtol)%Q -> (0 < tol)%Q ->
  forall base : aff, ~ (aff_det base == 0)%Q ->
  forall (a b : geobox crs) (pa pb : pbox),
    on_grid base a pa -> on_grid base b pb -> same_crs crs_eqb [a; b] ->
    exists g h, gbox_and crs_eqb atol rtol tol a b = Ok g /\ gbox_and crs_eqb atol rtol tol b a = Ok h /\
                shape_aff_eq g h.
Proof. exact gbox_and_comm. Qed.
Print Assumptions C16_intersection_commutative.

Theorem C16_union_associative :
  forall (crs : Type) (crs_eqb : crs -> crs -> bool) (atol rtol tol : Q),
    (0 <= atol)%Q -> (0 <= rtol)%Q -> (0 < tol)%Q ->
  forall base : aff, ~ (aff_det base == 0)%Q ->
  forall (a b c : geobox crs) (pa pb pc : pbox),
    on_grid base a pa -> on_grid base b pb -> on_grid base c pc -> same_crs crs_eqb [a; b; c] ->
    exists ab l bc r,
      gbox_or crs_eqb atol rtol tol a b = Ok ab /\ gbox_or crs_eqb atol rtol tol ab c = Ok l /\
      gbox_or crs_eqb atol rtol tol b c = Ok bc /\ gbox_or crs_eqb atol rtol tol a bc = Ok r /\
      shape_aff_eq l r.
Proof. exact gbox_or_assoc. Qed.
Print Assumptions C16_union_associative.

Theorem C16_intersection_associative :
  forall (crs : Type) (crs_eqb : crs -> crs -> bool) (atol rtol tol : Q),
    (0 <= atol)%Q -> (0 <= rtol)%Q -> (0 < tol)%Q ->
  forall base : aff, ~ (aff_det base == 0)%Q ->
  forall (a b c : geobox crs) (pa pb pc : pbox),
    on_grid base a pa -> on_grid base b pb -> on_grid base c pc -> same_crs crs_eqb [a; b; c] ->
    exists ab l bc r,
      gbox_and crs_eqb atol rtol tol a b = Ok ab /\ gbox_and crs_eqb atol rtol tol ab c = Ok l /\
      gbox_and crs_eqb atol rtol tol b c = Ok bc /\ gbox_and crs_eqb atol rtol tol a bc = Ok r /\
      shape_aff_eq l r.
Proof. exact gbox_and_assoc. Qed.
Print Assumptions C16_intersection_associative.

(** ** overlap_roi (repaired code) indexes exactly the shared pixels inside the first
    operand; the slices are never reversed and never have a negative bound, so numpy reads
    [x0:x1] as the index set {x0 <= i < x1} *)
Theorem C16_overlap_roi_is_shared_pixels :
  forall (crs : Type) (crs_eqb : crs -> crs -> bool) (atol rtol tol : Q),
    (0 <= atol)%Q -> (0 <= rtol)%Q -> (0 < tol)%Q ->
  forall base : aff, ~ (aff_det base == 0)%Q ->
  forall (a b : geobox crs) (pa pb : pbox),
    on_grid base a pa -> on_grid base b pb -> tag_ne crs_eqb (gcrs b) (gcrs a) = false ->
    exists y0 y1 x0 x1 : Z,
      overlap_roi crs_eqb fixed atol rtol tol a b = Ok ((y0, y1), (x0, x1)) /\
      0 <= x0 <= x1 /\ 0 <= y0 <= y1 /\
      (x0 < x1 -> x1 <= pnx pa) /\ (y0 < y1 -> y1 <= pny pa) /\
      (forall i, x0 <= i < x1 <-> 0 <= i < pnx pa /\ in_cols pb (px pa + i)) /\
      (forall j, y0 <= j < y1 <-> 0 <= j < pny pa /\ in_rows pb (py pa + j)).
Proof. exact overlap_roi_on_grid. Qed.
Print Assumptions C16_overlap_roi_is_shared_pixels.

(** The code at the pinned commit violated this: for a 10x10 GeoBox and a 5-wide box eight
    pixels to its left (no shared pixel) it returned the column slice 0:-3, which numpy
    reads as seven columns.  (Replayed on the implementation from corpus/C16/.) *)
Theorem C16_unrepaired_overlap_roi_refuted :
  exists (a b : geobox unit) (pa pb : pbox) y0 y1 x0 x1,
    on_grid aff_id a pa /\ on_grid aff_id b pb /\
    (forall i, ~ (0 <= i < pnx pa /\ in_cols pb (px pa + i))) /\
    overlap_roi (fun _ _ => true) {| fx_roi_clamp := false |}
                (1 # 100000000) (1 # 100000) (1 # 100000000) a b = Ok ((y0, y1), (x0, x1)) /\
    x1 < 0 /\
    np_get [0; 1; 2; 3; 4; 5; 6; 7; 8; 9] (SSl (Some x0) (Some x1) None) = Some [0; 1; 2; 3; 4; 5; 6].
Proof.
  exists (fam aff_id None (mkPB 0 0 10 10)), (fam aff_id None (mkPB (-8) 0 5 10)),
         (mkPB 0 0 10 10), (mkPB (-8) 0 5 10).
  do 4 eexists.
  split; [unfold on_grid, fam; simpl; repeat split; apply aff_eq_refl|].
  split; [unfold on_grid, fam; simpl; repeat split; apply aff_eq_refl|].
  split; [unfold in_cols; simpl; intros i; lia|].
  split; [vm_compute; reflexivity|].
  split; [lia | vm_compute; reflexivity].
Qed.
Print Assumptions C16_unrepaired_overlap_roi_refuted.

(** ** enclosing: on the source grid, covers every vertex of the region, excess below one
    pixel per side.  [pts] are the region's vertices in the CRS of the GeoBox (projection
    from another CRS is an oracle outside the model); [pix q] are the pixel coordinates of
    vertex [q] in the source GeoBox.  The right/bottom excess is below one pixel unless the
    region is degenerate on that axis at an integer pixel coordinate, where the code keeps
    one pixel ([max(1, span)]) and the excess is exactly one. *)
Theorem C16_enclosing_on_grid_covers_tight :
  forall (crs : Type) (g : geobox crs) (p : Q * Q) (ps : list (Q * Q)),
    ~ (aff_det (gaff g) == 0)%Q ->
    exists (u : geobox crs) (x0 y0 : Z),
      enclosing g true (p :: ps) = Ok u /\
      gaff u = aff_mul (gaff g) (aff_tr (inject_Z x0) (inject_Z y0)) /\ gcrs u = gcrs g /\
      1 <= gnx u /\ 1 <= gny u /\
      let pix := aff_apply (aff_inv (gaff g)) in
      (forall q, In q (p :: ps) ->
         (inject_Z x0 <= fst (pix q))%Q /\ (fst (pix q) <= inject_Z (x0 + gnx u))%Q /\
         (inject_Z y0 <= snd (pix q))%Q /\ (snd (pix q) <= inject_Z (y0 + gny u))%Q) /\
      (exists q, In q (p :: ps) /\ (fst (pix q) < inject_Z x0 + 1)%Q) /\
      (exists q, In q (p :: ps) /\ (snd (pix q) < inject_Z y0 + 1)%Q) /\
      (exists q, In q (p :: ps) /\
         ((inject_Z (x0 + gnx u) - 1 < fst (pix q))%Q \/
          (gnx u = 1 /\ forall q', In q' (p :: ps) -> (fst (pix q') == inject_Z x0)%Q))) /\
      (exists q, In q (p :: ps) /\
         ((inject_Z (y0 + gny u) - 1 < snd (pix q))%Q \/
          (gny u = 1 /\ forall q', In q' (p :: ps) -> (snd (pix q') == inject_Z y0)%Q))).
Proof. exact enclosing_spec. Qed.
Print Assumptions C16_enclosing_on_grid_covers_tight.

(** the pixel coordinates above, shifted by the result's origin, are coordinates in the
    result GeoBox: its affine maps them back to the world vertex *)
Theorem C16_enclosing_world_coordinates :
  forall (A : aff) (q : Q * Q) (tx ty : Q), ~ (aff_det A == 0)%Q ->
    let c := aff_apply (aff_inv A) q in
    pt_eq (aff_apply (aff_mul A (aff_tr tx ty)) ((fst c - tx)%Q, (snd c - ty)%Q)) q.
Proof. exact enclosing_world. Qed.
Print Assumptions C16_enclosing_world_coordinates.

Theorem C16_enclosing_errors :
  forall (crs : Type) (g : geobox crs) (pts : list (Q * Q)),
    enclosing g false pts = Err EValue /\
    enclosing g true [] = (if Qeq_bool (aff_det (gaff g)) 0 then Err EOther else Err EValue).
Proof. exact enclosing_errors. Qed.
Print Assumptions C16_enclosing_errors.

(** ** snap_to: grids [base * translation(p, q)] with ARBITRARY rational (sub-pixel) p, q.
    The result is [self] moved by (sx, sy) pixels with |sx|, |sy| <= 1/2; afterwards
    [other] is a whole number of pixels away — exactly on every axis that moved, and within
    [ztol] (the 1e-8 of maybe_zero) on an axis whose offset was below [ztol] and was
    therefore left in place. *)
Theorem C16_snap_to_half_pixel_onto_grid :
  forall (crs : Type) (crs_eqb : crs -> crs -> bool) (atol rtol : Q),
    (0 <= atol)%Q -> (0 <= rtol)%Q ->
  forall base : aff, ~ (aff_det base == 0)%Q ->
  forall (ztol : Q) (a b : geobox crs) (pa qa pb qb : Q),
    (0 < ztol)%Q -> on_grid_q base a pa qa -> on_grid_q base b pb qb ->
    tag_ne crs_eqb (gcrs b) (gcrs a) = false ->
    exists (u : geobox crs) (sx sy : Q),
      snap_to crs_eqb atol rtol ztol a b = Ok u /\
      gny u = gny a /\ gnx u = gnx a /\ gcrs u = gcrs a /\
      gaff u = aff_mul (gaff a) (aff_tr sx sy) /\
      (Qabs sx <= 1 # 2)%Q /\ (Qabs sy <= 1 # 2)%Q /\
      exists n m : Z,
        (Qabs (pb - pa - sx - inject_Z n) < ztol)%Q /\ (Qabs (qb - qa - sy - inject_Z m) < ztol)%Q /\
        (~ (sx == 0)%Q -> (pb - pa - sx == inject_Z n)%Q) /\
        (~ (sy == 0)%Q -> (qb - qa - sy == inject_Z m)%Q).
Proof. exact snap_to_on_grid_q. Qed.
Print Assumptions C16_snap_to_half_pixel_onto_grid.

(** ** rejection: the exact decision rule, for ALL pairs of GeoBoxes.
    [compatible a ref] = CRS tags compare equal, reference affine invertible, the four
    linear coefficients of [ref^-1 * a] pass isclose against (1,0,0,1), and both
    translations are within [tol] of an integer. *)
Theorem C16_accepted_iff_compatible :
  forall (crs : Type) (crs_eqb : crs -> crs -> bool) (atol rtol tol : Q) (a ref : geobox crs),
    is_ok (bbox_in_pix crs_eqb atol rtol tol a ref) = true <-> compatible crs_eqb atol rtol tol a ref.
Proof. exact bbox_in_pix_accepts_iff. Qed.
Print Assumptions C16_accepted_iff_compatible.

Theorem C16_rejected_iff_not_compatible :
  forall (crs : Type) (crs_eqb : crs -> crs -> bool) (atol rtol tol : Q) (a ref : geobox crs),
    (exists e, bbox_in_pix crs_eqb atol rtol tol a ref = Err e) <-> ~ compatible crs_eqb atol rtol tol a ref.
Proof. exact bbox_in_pix_rejects_iff. Qed.
Print Assumptions C16_rejected_iff_not_compatible.

(** the error is a ValueError, except for a non-invertible reference affine *)
Theorem C16_rejection_error_kind :
  forall (crs : Type) (crs_eqb : crs -> crs -> bool) (atol rtol tol : Q) (a ref : geobox crs) (e : err),
    bbox_in_pix crs_eqb atol rtol tol a ref = Err e ->
    e = EValue \/
    (e = EOther /\ tag_ne crs_eqb (gcrs a) (gcrs ref) = false /\ (aff_det (gaff ref) == 0)%Q).
Proof. exact bbox_in_pix_error_kind. Qed.
Print Assumptions C16_rejection_error_kind.

(** conversely an accepted pair is within those tolerances of a whole-pixel shift, and the
    pixel-domain box returned is that shift *)
Theorem C16_accepted_is_near_whole_pixel_shift :
  forall (crs : Type) (crs_eqb : crs -> crs -> bool) (atol rtol tol : Q) (a ref : geobox crs)
         (bb : zbox crs),
    (tol <= 1 # 2)%Q -> bbox_in_pix crs_eqb atol rtol tol a ref = Ok bb ->
    compatible crs_eqb atol rtol tol a ref /\
    (Qabs (ac (rel_aff a ref) - inject_Z (bl bb)) < tol)%Q /\
    (Qabs (af (rel_aff a ref) - inject_Z (bb_ bb)) < tol)%Q /\
    br bb = bl bb + gnx a /\ bt bb = bb_ bb + gny a /\ bcrs bb = None.
Proof. exact bbox_in_pix_accepted. Qed.
Print Assumptions C16_accepted_is_near_whole_pixel_shift.

(** union, intersection and overlap fail exactly when the compatibility test of an operand
    against the first operand fails (the first operand is always compatible with itself) *)
Theorem C16_binary_ops_rejected_iff :
  forall (crs : Type) (crs_eqb : crs -> crs -> bool) (atol rtol tol : Q) (fx : fixes) (a b : geobox crs),
    is_ok (gbox_or crs_eqb atol rtol tol a b) =
      is_ok (bbox_in_pix crs_eqb atol rtol tol a a) && is_ok (bbox_in_pix crs_eqb atol rtol tol b a) /\
    is_ok (gbox_and crs_eqb atol rtol tol a b) =
      is_ok (bbox_in_pix crs_eqb atol rtol tol a a) && is_ok (bbox_in_pix crs_eqb atol rtol tol b a) /\
    is_ok (overlap_roi crs_eqb fx atol rtol tol a b) = is_ok (bbox_in_pix crs_eqb atol rtol tol b a).
Proof. exact binary_ops_rejected_iff. Qed.
Print Assumptions C16_binary_ops_rejected_iff.

Theorem C16_self_compatible :
  forall (crs : Type) (crs_eqb : crs -> crs -> bool) (atol rtol tol : Q) (a : geobox crs),
    (0 <= atol)%Q -> (0 <= rtol)%Q -> (0 < tol)%Q ->
    tag_ne crs_eqb (gcrs a) (gcrs a) = false -> ~ (aff_det (gaff a) == 0)%Q ->
    is_ok (bbox_in_pix crs_eqb atol rtol tol a a) = true.
Proof. exact self_compatible. Qed.
Print Assumptions C16_self_compatible.

(** ** BoundingBox lattice laws for ALL rational boxes (also inverted ones: the
    intersection of disjoint boxes is the inverted box (max lefts, min rights), and every
    law below holds edge-wise for it too).  [box_le a u]: a's edges lie inside u's. *)
Theorem C16_bbox_commutative :
  forall (crs : Type) (crs_eqb : crs -> crs -> bool) (a b u v : bbox crs Q),
    (qbox_or crs_eqb a b = Ok u -> qbox_or crs_eqb b a = Ok v -> box_eq u v) /\
    (qbox_and crs_eqb a b = Ok u -> qbox_and crs_eqb b a = Ok v -> box_eq u v).
Proof. exact qbox_comm_both. Qed.
Print Assumptions C16_bbox_commutative.

Theorem C16_bbox_associative :
  forall (crs : Type) (crs_eqb : crs -> crs -> bool) (a b c ab l bc r : bbox crs Q),
    (qbox_or crs_eqb a b = Ok ab -> qbox_or crs_eqb ab c = Ok l ->
     qbox_or crs_eqb b c = Ok bc -> qbox_or crs_eqb a bc = Ok r -> box_eq l r) /\
    (qbox_and crs_eqb a b = Ok ab -> qbox_and crs_eqb ab c = Ok l ->
     qbox_and crs_eqb b c = Ok bc -> qbox_and crs_eqb a bc = Ok r -> box_eq l r).
Proof. exact qbox_assoc_both. Qed.
Print Assumptions C16_bbox_associative.

Theorem C16_bbox_idempotent :
  forall (crs : Type) (crs_eqb : crs -> crs -> bool) (a u v : bbox crs Q),
    (qbox_or crs_eqb a a = Ok u -> box_eq u a) /\ (qbox_and crs_eqb a a = Ok v -> box_eq v a).
Proof. exact qbox_idem. Qed.
Print Assumptions C16_bbox_idempotent.

Theorem C16_bbox_absorbing :
  forall (crs : Type) (crs_eqb : crs -> crs -> bool) (a b i u j v : bbox crs Q),
    (qbox_and crs_eqb a b = Ok i -> qbox_or crs_eqb a i = Ok u -> box_eq u a) /\
    (qbox_or crs_eqb a b = Ok j -> qbox_and crs_eqb a j = Ok v -> box_eq v a).
Proof. exact qbox_absorb. Qed.
Print Assumptions C16_bbox_absorbing.

Theorem C16_bbox_containment :
  forall (crs : Type) (crs_eqb : crs -> crs -> bool) (a b u i : bbox crs Q),
    (qbox_or crs_eqb a b = Ok u -> box_le a u /\ box_le b u) /\
    (qbox_and crs_eqb a b = Ok i -> box_le i a /\ box_le i b).
Proof. exact qbox_containment. Qed.
Print Assumptions C16_bbox_containment.

(** the operations are defined exactly when the CRS tags compare equal *)
Theorem C16_bbox_defined_iff_same_crs :
  forall (crs : Type) (crs_eqb : crs -> crs -> bool) (a b : bbox crs Q),
    (tag_ne crs_eqb (bcrs a) (bcrs b) = true ->
       qbox_or crs_eqb a b = Err ECrs /\ qbox_and crs_eqb a b = Err ECrs) /\
    (tag_ne crs_eqb (bcrs a) (bcrs b) = false ->
       exists u i, qbox_or crs_eqb a b = Ok u /\ qbox_and crs_eqb a b = Ok i /\
                   bcrs u = bcrs a /\ bcrs i = bcrs a).
Proof. exact qbox_defined. Qed.
Print Assumptions C16_bbox_defined_iff_same_crs.

(** streams of any length: least upper bound / greatest lower bound *)
Theorem C16_bbox_union_nary_least_upper_bound :
  forall (crs : Type) (crs_eqb : crs -> crs -> bool) (x : bbox crs Q) (rest : list (bbox crs Q)),
    (forall y, In y rest -> tag_ne crs_eqb (bcrs x) (bcrs y) = false) ->
    exists u, bbox_union crs_eqb Qmin Qmax (x :: rest) = Ok u /\ bcrs u = bcrs x /\
      (forall y, In y (x :: rest) -> box_le y u) /\
      (forall v : bbox crs Q, (forall y, In y (x :: rest) -> box_le y v) -> box_le u v).
Proof. exact bbox_union_nary. Qed.
Print Assumptions C16_bbox_union_nary_least_upper_bound.

Theorem C16_bbox_intersection_nary_greatest_lower_bound :
  forall (crs : Type) (crs_eqb : crs -> crs -> bool) (x : bbox crs Q) (rest : list (bbox crs Q)),
    (forall y, In y rest -> tag_ne crs_eqb (bcrs x) (bcrs y) = false) ->
    exists u, bbox_intersection crs_eqb Qmin Qmax (x :: rest) = Ok u /\ bcrs u = bcrs x /\
      (forall y, In y (x :: rest) -> box_le u y) /\
      (forall v : bbox crs Q, (forall y, In y (x :: rest) -> box_le v y) -> box_le v u).
Proof. exact bbox_intersection_nary. Qed.
Print Assumptions C16_bbox_intersection_nary_greatest_lower_bound.

(** ** Non-vacuity: a rotated+mirrored base (det = -2), three GeoBoxes on its grid, real
    tolerances; the hypotheses hold and the operations evaluate as the theorems say
    (the x axis of the intersection is empty, the y axis is not). *)
Definition ex_base : aff := mkAff 1 1 (7 # 2) 1 (-1) (-3).
Definition ex_a : geobox Z := fam ex_base (Some 4326) (mkPB 0 0 10 8).
Definition ex_b : geobox Z := fam ex_base (Some 4326) (mkPB 4 (-3) 10 8).
Definition ex_c : geobox Z := fam ex_base (Some 4326) (mkPB (-20) 2 5 4).
Example C16_example :
  ~ (aff_det ex_base == 0)%Q /\ on_grid ex_base ex_a (mkPB 0 0 10 8) /\ same_crs Z.eqb [ex_a; ex_b; ex_c] /\
  (exists g, gbox_or Z.eqb (1 # 100000000) (1 # 100000) (1 # 100000000) ex_a ex_b = Ok g
             /\ gnx g = 14 /\ gny g = 11) /\
  (exists g, gbox_and Z.eqb (1 # 100000000) (1 # 100000) (1 # 100000000) ex_a ex_b = Ok g
             /\ gnx g = 6 /\ gny g = 5) /\
  (exists g, gbox_and Z.eqb (1 # 100000000) (1 # 100000) (1 # 100000000) ex_a ex_c = Ok g
             /\ gnx g = 0 /\ gny g = 4) /\
  overlap_roi Z.eqb fixed (1 # 100000000) (1 # 100000) (1 # 100000000) ex_a ex_c = Ok ((2, 6), (0, 0)).
Proof.
  split; [vm_compute; discriminate|].
  split; [unfold on_grid, ex_a, fam; simpl; repeat split; apply aff_eq_refl|].
  split.
  { intros x y [<- | [<- | [<- | []]]] [<- | [<- | [<- | []]]]; reflexivity. }
  split; [eexists; split; [vm_compute; reflexivity | split; reflexivity]|].
  split; [eexists; split; [vm_compute; reflexivity | split; reflexivity]|].
  split; [eexists; split; [vm_compute; reflexivity | split; reflexivity]|].
  vm_compute. reflexivity.
Qed.
