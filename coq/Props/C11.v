(** Property C11 — the output grid computed for another CRS encloses the source.

    Only statements; each is closed by [exact] of a lemma of
    Proofs/OutGeoboxProofs.v and followed by [Print Assumptions].

    Model: Model/OutGeobox.v ([compute_output_geobox] and everything below it,
    floats as exact rationals).  Inputs that come out of shapely / pyproj are
    arguments of the model and universally quantified here:
      [B]    bounding box of the buffered (0.9 source pixel), densified
             (100 points per side), projected footprint;
      [dst]/[du]  the CRS of that box and its units (integers name CRSs / unit tuples);
      [fit]  the centre-pixel fitted pixel size; [rr] the round_resolution hook;
      UTM candidates with overlap fractions, zone letters.
    Vocabulary (Proofs/OutGeoboxProofs.v): [px g], [py g] = |pixel size|;
    [g_left .. g_top] = bounding box of the grid; [covers B tol g] = the grid
    misses at most [tol] pixel of [B] per side; [snug B g] = it is less than a
    pixel larger than needed; [aligned sx sy g] = every pixel edge is at
    (integer + s) * pixel size; [starts_at_box B g] = unsnapped origin;
    [chosen] = the resolution decision table; [rounded] = rounding hook. *)
From Coq Require Import ZArith QArith Qround Qabs List Bool.
From OG Require Import Base.Result Model.OutGeobox Proofs.OutGeoboxProofs.
Import ListNotations.
Open Scope Q_scope.

(** ** 1. Same CRS with default options: the source object itself *)
Theorem C11_same_crs_defaults_identity :
  forall s du B fit rq tight tol rr,
    s_isgeobox s = true -> rq = RAuto \/ rq = RSame ->
    compute_output_geobox s (s_crs s) du B fit rq None tight (AStr SDefault) tol rr = Ok OSame.
Proof. exact cog_identity. Qed.
Print Assumptions C11_same_crs_defaults_identity.

(** ... and in no other situation *)
Theorem C11_identity_only_for_defaults :
  forall s dst du B fit rq shape tight anc tol rr,
    compute_output_geobox s dst du B fit rq shape tight anc tol rr = Ok OSame ->
    dst = s_crs s /\ (rq = RAuto \/ rq = RSame) /\ shape = None /\ anc = AStr SDefault /\
    s_isgeobox s = true.
Proof. exact cog_same_only. Qed.
Print Assumptions C11_identity_only_for_defaults.

(** ** 2. Every computed grid is axis aligned, in the requested CRS (no hypotheses) *)
Theorem C11_axis_aligned_in_requested_crs :
  forall s dst du B fit rq shape tight anc tol rr g,
    compute_output_geobox s dst du B fit rq shape tight anc tol rr = Ok (ONew g) ->
    (ab (g_aff g) == 0 /\ ad (g_aff g) == 0) /\ g_crs g = dst.
Proof. exact cog_axis_aligned. Qed.
Print Assumptions C11_axis_aligned_in_requested_crs.

(** ** 3. Resolution decision table (no shape requested) *)
Theorem C11_resolution_decision_table :
  forall s dst du B fit rq tight anc tol rr g,
    compute_output_geobox s dst du B fit rq None tight anc tol rr = Ok (ONew g) ->
    exists rx ry,
      aa (g_aff g) == rx /\ ae (g_aff g) == ry /\
      match rq with
      | RSame => (rx, ry) = s_res s
      | RAuto => if Z.eqb (s_units s) du then (rx, ry) = s_res s
                 else rx = rounded rr fit /\ ry = - rounded rr fit
      | RFit => rx = rounded rr fit /\ ry = - rounded rr fit
      | RNum q => rx = q /\ ry = - q
      | RXY x y => rx = x /\ ry = y
      | RStr => False
      end.
Proof. exact cog_decision_table. Qed.
Print Assumptions C11_resolution_decision_table.

(** when source and target share units the default resolution is the source resolution *)
Theorem C11_same_units_default_is_source_resolution :
  forall s dst B fit tight anc tol rr g,
    compute_output_geobox s dst (s_units s) B fit RAuto None tight anc tol rr = Ok (ONew g) ->
    aa (g_aff g) == fst (s_res s) /\ ae (g_aff g) == snd (s_res s).
Proof. exact cog_same_units. Qed.
Print Assumptions C11_same_units_default_is_source_resolution.

(** a resolution string other than same / auto / fit is a ValueError *)
Theorem C11_invalid_resolution_string :
  forall s dst du B fit tight anc tol rr,
    compute_output_geobox s dst du B fit RStr None tight anc tol rr = Err EValue.
Proof. exact cog_bad_string. Qed.
Print Assumptions C11_invalid_resolution_string.

(** round_resolution=True is Python's round(): nearest integer, ties to even *)
Theorem C11_round_half_even :
  forall x,
    let z := inject_Z (round_half_even x) in
    x - (1 # 2) <= z /\ z <= x + (1 # 2) /\
    ((z == x - (1 # 2) \/ z == x + (1 # 2)) -> Z.even (round_half_even x) = true).
Proof. exact round_half_even_spec. Qed.
Print Assumptions C11_round_half_even.

(** ** 4. The result covers the footprint box up to [tol] pixel per side
       (resolution-driven requests and a single-number shape), with at least
       one pixel per axis, and is less than one pixel larger than needed *)
Theorem C11_covers_footprint_box :
  forall s dst du B fit rq shape tight anc tol rr g,
    compute_output_geobox s dst du B fit rq shape tight anc tol rr = Ok (ONew g) ->
    not_yx shape -> valid_box B -> 0 <= tol ->
    (1 <= g_nx g)%Z /\ (1 <= g_ny g)%Z /\ 0 < px g /\ 0 < py g /\
    (g_left g <= bl B + tol * px g /\ br B - tol * px g <= g_right g /\
     g_bottom g <= bb B + tol * py g /\ bt B - tol * py g <= g_top g) /\
    (bl B - px g < g_left g /\ (g_right g < br B + px g \/ g_nx g = 1%Z) /\
     bb B - py g < g_bottom g /\ (g_top g < bt B + py g \/ g_ny g = 1%Z)).
Proof. exact cog_covers. Qed.
Print Assumptions C11_covers_footprint_box.

(** ** 5. Enclosure of every projected source pixel, from the footprint contract.
       [P x y]: (x, y) is the projection of a point of some source pixel. *)
Theorem C11_encloses_projected_source_pixels :
  forall (P : Q -> Q -> Prop) (B : bbox),
    (forall x y, P x y -> bl B <= x /\ x <= br B /\ bb B <= y /\ y <= bt B) ->
    forall s dst du fit rq shape tight anc tol rr g,
      compute_output_geobox s dst du B fit rq shape tight anc tol rr = Ok (ONew g) ->
      not_yx shape -> valid_box B -> 0 <= tol ->
      forall x y, P x y ->
        g_left g - tol * px g <= x /\ x <= g_right g + tol * px g /\
        g_bottom g - tol * py g <= y /\ y <= g_top g + tol * py g.
Proof. exact cog_encloses. Qed.
Print Assumptions C11_encloses_projected_source_pixels.

(** ** 6. Alignment *)
(** default anchor: all pixel edges are integer multiples of the pixel size *)
Theorem C11_default_anchor_edges_are_multiples :
  forall s dst du B fit rq shape tol rr g,
    compute_output_geobox s dst du B fit rq shape false (AStr SDefault) tol rr = Ok (ONew g) ->
    not_yx shape -> valid_box B -> 0 <= tol ->
    forall i : Z,
      (exists k : Z, g_x0 g + inject_Z i * aa (g_aff g) == inject_Z k * px g) /\
      (exists k : Z, g_y0 g + inject_Z i * ae (g_aff g) == inject_Z k * py g).
Proof. exact cog_default_anchor_multiples. Qed.
Print Assumptions C11_default_anchor_edges_are_multiples.

(** any anchor: edges at (integer + anchor fraction) * pixel size; floating or
    tight: the grid starts exactly at the footprint box *)
Theorem C11_alignment_as_requested :
  forall s dst du B fit rq shape tight anc tol rr g,
    compute_output_geobox s dst du B fit rq shape tight anc tol rr = Ok (ONew g) ->
    not_yx shape -> valid_box B -> 0 <= tol ->
    exists na, norm_anchor anc = Ok na /\
      match snap_of tight na with
      | Some (sx, sy) => aligned sx sy g
      | None => starts_at_box B g
      end.
Proof. exact cog_alignment. Qed.
Print Assumptions C11_alignment_as_requested.

Theorem C11_tight_ignores_anchor :
  forall s dst du B fit rq shape anc tol rr g,
    compute_output_geobox s dst du B fit rq shape true anc tol rr = Ok (ONew g) ->
    not_yx shape -> valid_box B -> 0 <= tol ->
    g_x0 g == (if Qltb 0 (aa (g_aff g)) then bl B else br B) /\
    g_y0 g == (if Qltb 0 (ae (g_aff g)) then bb B else bt B).
Proof. exact cog_tight. Qed.
Print Assumptions C11_tight_ignores_anchor.

(** which snap offsets each way of writing the anchor means *)
Theorem C11_anchor_table :
  (forall na, snap_of true na = None) /\
  snap_of false NEdge = Some (0, 0) /\ snap_of false NCenter = Some (1 # 2, 1 # 2) /\
  snap_of false NFloating = None /\ (forall x y, snap_of false (NXY x y) = Some (x, y)) /\
  norm_anchor (AStr SDefault) = Ok NEdge /\ norm_anchor (AStr SEdge) = Ok NEdge /\
  norm_anchor AEnumEdge = Ok NEdge /\ norm_anchor (AStr SCenter) = Ok NCenter /\
  norm_anchor (AStr SCentre) = Ok NCenter /\ norm_anchor AEnumCenter = Ok NCenter /\
  norm_anchor (AStr SFloating) = Ok NFloating /\ norm_anchor AEnumFloating = Ok NFloating /\
  (forall x y, norm_anchor (AXY x y) = Ok (NXY x y)) /\
  (forall q, q == 0 -> norm_anchor (ANum q) = Ok NEdge) /\
  (forall q, q == 1 # 2 -> norm_anchor (ANum q) = Ok NCenter) /\
  (forall q, ~ q == 0 -> ~ q == 1 # 2 -> norm_anchor (ANum q) = Ok (NXY q q)).
Proof. exact snap_table. Qed.
Print Assumptions C11_anchor_table.

(** ** 7. Shape requests *)
(** (ny, nx): exactly that shape, pixel size = span / shape (y inverted),
    displaced from the footprint box by less than one pixel, not at all
    without snapping, otherwise snapped as requested *)
Theorem C11_explicit_shape :
  forall s dst du B fit rq ny nx tight anc tol rr g,
    compute_output_geobox s dst du B fit rq (Some (ShapeYX ny nx)) tight anc tol rr = Ok (ONew g) ->
    valid_box B -> 0 <= tol -> (0 < nx)%Z -> (0 < ny)%Z ->
    g_ny g = ny /\ g_nx g = nx /\ g_crs g = dst /\ (ab (g_aff g) == 0 /\ ad (g_aff g) == 0) /\
    aa (g_aff g) == span_x B / inject_Z nx /\ ae (g_aff g) == - (span_y B / inject_Z ny) /\
    Qabs (g_x0 g - bl B) < px g /\ Qabs (g_y0 g - bt B) < py g /\
    exists na, norm_anchor anc = Ok na /\
      match snap_of tight na with
      | None => g_x0 g == bl B /\ g_y0 g == bt B
      | Some (sx, sy) => aligned sx sy g
      end.
Proof. exact cog_shape_yx. Qed.
Print Assumptions C11_explicit_shape.

(** a single number n: square pixels of size (longest side of the footprint
    box) / n, y inverted — the footprint spans exactly n pixels along its
    longest side; the grid has exactly n pixels there when it is not snapped
    (tight / floating) and n or n+1 when the origin is snapped to the anchor.
    (Covering, alignment and enclosure for this request: theorems 4-6.) *)
Theorem C11_longest_side_shape :
  forall s dst du B fit rq n tight anc tol rr g,
    compute_output_geobox s dst du B fit rq (Some (ShapeN n)) tight anc tol rr = Ok (ONew g) ->
    valid_box B -> 0 <= tol -> (0 < n)%Z ->
    0 < aa (g_aff g) /\ ae (g_aff g) == - aa (g_aff g) /\
    (span_y B < span_x B -> aa (g_aff g) == span_x B / inject_Z n) /\
    (span_x B <= span_y B -> aa (g_aff g) == span_y B / inject_Z n) /\
    (tol < 1 # 2 -> (n <= longest_count B g <= n + 1)%Z) /\
    (forall na, norm_anchor anc = Ok na -> snap_of tight na = None -> longest_count B g = n).
Proof. exact cog_shape_n. Qed.
Print Assumptions C11_longest_side_shape.

(** ** 8. Inside the domain the computation succeeds (so 2-7 are not vacuous) *)
Theorem C11_total_in_domain :
  forall s dst du B fit rq shape tight anc tol rr,
    valid_box B -> 0 <= tol -> anchor_valid anc -> shape_valid shape ->
    (shape = None -> exists rx ry, chosen s du fit rq rr = Ok (rx, ry) /\ ~ rx == 0 /\ ~ ry == 0) ->
    exists o, compute_output_geobox s dst du B fit rq shape tight anc tol rr = Ok o.
Proof. exact cog_total. Qed.
Print Assumptions C11_total_in_domain.

(** ** 9. 'utm' / 'utm-n' / 'utm-s' *)
(** the zone is the candidate with the largest overlap with the raster's
    lon/lat box (first one on ties); no candidate: ValueError *)
Theorem C11_utm_zone_choice :
  forall cands big e,
    pick_best_crs cands big = Ok e ->
    exists c, In c cands /\ fst c = e /\ (big = true -> forall c', In c' cands -> snd c' <= snd c).
Proof. exact pick_best_spec. Qed.
Print Assumptions C11_utm_zone_choice.

(** hemisphere table: given that the database candidates are EPSG 326zz
    (letter N) / 327zz (letter S), 'utm' is the chosen zone as is, 'utm-n' its
    northern and 'utm-s' its southern code *)
Theorem C11_utm_hemisphere :
  forall rq cands big letter zone r,
    utm_db_ok cands letter zone ->
    norm_crs_utm rq cands big letter = Ok r ->
    exists e, pick_best_crs cands big = Ok e /\ In e (map fst cands) /\
      match rq with
      | Utm => r = e
      | UtmN => r = (32600 + zone e)%Z
      | UtmS => r = (32700 + zone e)%Z
      end.
Proof. exact norm_crs_utm_spec. Qed.
Print Assumptions C11_utm_hemisphere.

(** ** 10. The footprint request behind [B] (model of the repaired code)
       buffer: at least [b] pixels along both axes whatever the signs of the
       resolution; before repair b8c684a (max of the signed components) a
       mirrored grid was shrunk instead: refuted statement below.
       densification: 100..10000 points per side, segments shorter than 256
       pixels up to 2.56 million pixels per side (repair e8f8707). *)
Theorem C11_footprint_buffer_grows :
  forall b rx ry, 0 < b -> ~ rx == 0 -> ~ ry == 0 ->
    0 < footprint_buffer b (rx, ry) /\
    b * Qabs rx <= footprint_buffer b (rx, ry) /\ b * Qabs ry <= footprint_buffer b (rx, ry).
Proof. exact footprint_buffer_grows. Qed.
Print Assumptions C11_footprint_buffer_grows.

Theorem C11_footprint_buffer_unrepaired_refuted :
  exists rs, ~ fst rs == 0 /\ ~ snd rs == 0 /\ footprint_buffer_unrepaired (9 # 10) rs < 0.
Proof. exact footprint_buffer_unrepaired_shrinks. Qed.
Print Assumptions C11_footprint_buffer_unrepaired_refuted.

Theorem C11_footprint_densification :
  forall ny nx,
    (100 <= footprint_npoints ny nx <= 10000)%Z /\
    (Z.max ny nx < 256 * 10001 -> Z.max ny nx < 256 * (footprint_npoints ny nx + 1))%Z.
Proof. exact footprint_npoints_spec. Qed.
Print Assumptions C11_footprint_densification.

(** ** Non-vacuity: concrete instances inside the hypotheses *)
Definition ex_src := mkSrc true 32630 1 (10, -10).
Definition ex_B := mkBox (-(25 # 4)) (35 # 1) (-(5 # 1)) (145 # 4).

Example C11_ex_identity :
  compute_output_geobox ex_src 32630 1 ex_B 1 RAuto None false (AStr SDefault) (1 # 100) RRNone = Ok OSame.
Proof. vm_compute. reflexivity. Qed.

(** fit to degrees, 1/64 degree pixels: 80 x 80 pixels, origin (-6.25, 36.25) *)
Example C11_ex_fit :
  exists g, compute_output_geobox ex_src 4326 2 ex_B (1 # 64) RAuto None false (AStr SDefault) (1 # 100) RRNone
            = Ok (ONew g) /\ g_nx g = 80%Z /\ g_ny g = 80%Z /\ g_x0 g == -(25 # 4) /\ g_y0 g == 145 # 4
            /\ valid_box ex_B.
Proof.
  eexists. split; [vm_compute; reflexivity|]. cbn. repeat split; reflexivity.
Qed.

Example C11_ex_shape :
  exists g, compute_output_geobox ex_src 4326 2 ex_B 1 RAuto (Some (ShapeN 10)) true (AStr SDefault) (1 # 100) RRNone
            = Ok (ONew g) /\ longest_count ex_B g = 10%Z.
Proof. eexists. split; [vm_compute; reflexivity|]. vm_compute. reflexivity. Qed.

Example C11_ex_utm :
  norm_crs_utm UtmS [(32630%Z, 1 # 2); (32631%Z, 1 # 3)] true (fun _ => ZN) = Ok 32730%Z /\
  utm_db_ok [(32630%Z, 1 # 2); (32631%Z, 1 # 3)] (fun _ => ZN) (fun e => (e - 32600)%Z).
Proof.
  split; [reflexivity|]. intros e [<-|[<-|[]]]; left; split; reflexivity.
Qed.
