(** Property C10 — the paste shortcut is pixel-identical to a nearest-neighbour warp.
    Only statements, closed by [exact] of lemmas from Proofs/.

    An image is a function row -> column -> value over an arbitrary value type
    [V] (every pixel type).  [paste_img] is "fill with nodata, then
    dst[roi_dst] = src[roi_src] reversed along mirrored axes"; [warp_nn] is the
    nearest-neighbour warp contract (destination pixel takes the source pixel
    containing the image of its centre, nodata outside) — GDAL/rasterio is
    validated against that contract by the harness, it is not proved. *)
From Coq Require Import ZArith QArith Qround Qabs List Bool Lia.
From OG Require Import Base.Result Base.QZ Model.Roi Model.Overlap Model.Paste
     Proofs.RoiPointsProofs Proofs.OverlapProofs Proofs.PasteProofs.
Import ListNotations.
Open Scope Q_scope.

(** * one axis, unit scale (+1 or mirrored -1), whole-pixel shift T *)
Theorem C10_axis_paste_identity :
  forall (Ns Nd T : Z) (flip : bool), (0 <= Ns)%Z -> (0 <= Nd)%Z ->
  let s := if flip then inject_Z (-1) else inject_Z 1 in
  let nn := fun d => if flip then (T - 1 - d)%Z else (d + T)%Z in
  exists src dst, axis_overlap Ns Nd s (inject_Z T) = Ok (src, dst) /\
    (* same length *)
    (snd src - fst src = snd dst - fst dst)%Z /\
    (* the destination slice is exactly the set of pixels that map inside the source *)
    (forall d, (0 <= d < Nd)%Z -> (in_sl dst d <-> (0 <= nn d < Ns)%Z)) /\
    (* and the element pasted there is the nearest-neighbour one *)
    (forall d, in_sl dst d -> paste_index src dst flip d = nn d).
Proof. exact axis_overlap_unit. Qed.
Print Assumptions C10_axis_paste_identity.

(** floor(+-(d+1/2) + T + eps) = +-d + T (-1 when mirrored) for |eps| < 1/2 *)
Theorem C10_nearest_index_within_half_pixel :
  forall (T d : Z) (flip : bool) (x : Q),
  let s := if flip then inject_Z (-1) else inject_Z 1 in
  Qabs (x - (s * (inject_Z d + (1#2)) + inject_Z T)) < 1#2 ->
  Qfloor x = if flip then (T - 1 - d)%Z else (d + T)%Z.
Proof. exact nn_floor_unit. Qed.
Print Assumptions C10_nearest_index_within_half_pixel.

(** * pasted image = warped image, every pixel, every value type *)
Theorem C10_paste_equals_warp :
  forall (V : Type) (src : img V) (nodata : V)
         c ss ds A F ttol stol padding align r (loc : Z -> Z -> Q * Q),
  reproject_linear c ss ds A F ttol stol padding align = Ok r ->
  paste_ok r = true -> read_shrink r = 1%Z ->
  (0 <= fst ss)%Z -> (0 <= snd ss)%Z -> (0 <= fst ds)%Z -> (0 <= snd ds)%Z -> tol_ok c stol ->
  let P := paste_affine c A ttol stol 1 in
  (* [loc] = true source location of each destination pixel centre, less than half a pixel
     away from the snapped transform *)
  (forall dy dx, (0 <= dy < fst ds)%Z -> (0 <= dx < snd ds)%Z ->
     Qabs (fst (loc dy dx) - fst (aff_apply P (pix_center dy dx))) < 1#2 /\
     Qabs (snd (loc dy dx) - snd (aff_apply P (pix_center dy dx))) < 1#2) ->
  forall dy dx, (0 <= dy < fst ds)%Z -> (0 <= dx < snd ds)%Z ->
    paste_img src nodata (roi_src r) (roi_dst r) (Qltb (ae A) 0) (Qltb (aa A) 0) dy dx =
    warp_nn src nodata ss loc dy dx.
Proof. exact paste_equals_warp. Qed.
Print Assumptions C10_paste_equals_warp.

(** the half-pixel hypothesis holds for the true transform [A] itself whenever its scale is
    exactly +-1: whole-pixel shift plus any residue accepted by ttol <= 1/2 *)
Theorem C10_true_transform_within_half_pixel :
  forall c A ttol stol sx sy,
  can_paste_code c A stol ttol = Ok 0%Z -> scale2 A = Ok (sx, sy) ->
  pick_read_scale (Qminq sx sy) (c_rs c) = Ok 1%Z -> tol_ok c stol -> ttol <= 1#2 ->
  aa A == unit_q (Qltb (aa A) 0) -> ae A == unit_q (Qltb (ae A) 0) -> ab A == 0 -> ad A == 0 ->
  let P := paste_affine c A ttol stol 1 in
  forall dy dx,
    Qabs (fst (aff_apply A (pix_center dy dx)) - fst (aff_apply P (pix_center dy dx))) < 1#2 /\
    Qabs (snd (aff_apply A (pix_center dy dx)) - snd (aff_apply P (pix_center dy dx))) < 1#2.
Proof. exact loc_exact_scale. Qed.
Print Assumptions C10_true_transform_within_half_pixel.

(** * read_shrink = k: the source region is the destination region scaled by k *)
Theorem C10_shrink_region_scaled :
  forall c ss ds A F ttol stol padding align r,
  reproject_linear c ss ds A F ttol stol padding align = Ok r -> paste_ok r = true ->
  (0 <= fst ss)%Z -> (0 <= snd ss)%Z -> (0 <= fst ds)%Z -> (0 <= snd ds)%Z -> tol_ok c stol ->
  let k := read_shrink r in
  (snd (fst (roi_src r)) - fst (fst (roi_src r)) = k * (snd (fst (roi_dst r)) - fst (fst (roi_dst r))))%Z /\
  (snd (snd (roi_src r)) - fst (snd (roi_src r)) = k * (snd (snd (roi_dst r)) - fst (snd (roi_dst r))))%Z.
Proof. exact paste_shrink_scaled. Qed.
Print Assumptions C10_shrink_region_scaled.

(** ... its bounds are multiples of k, and position by position it is the k-fold block of the
    overview pixel that the snapped transform assigns (mirroring included) *)
Theorem C10_shrink_region_structure :
  forall c ss ds A F ttol stol padding align r,
  reproject_linear c ss ds A F ttol stol padding align = Ok r -> paste_ok r = true ->
  (0 <= fst ss)%Z -> (0 <= snd ss)%Z -> (0 <= fst ds)%Z -> (0 <= snd ds)%Z -> tol_ok c stol ->
  let k := read_shrink r in
  (1 <= k)%Z /\
  exists tx ty rs rd,
    paste_affine c A ttol stol k =
      mkAff (unit_q (Qltb (aa A) 0)) 0 (inject_Z tx) 0 (unit_q (Qltb (ae A) 0)) (inject_Z ty) /\
    axis_unit_facts (fst (src_dims ss k)) (fst ds) ty (Qltb (ae A) 0) (fst rs) (fst rd) /\
    axis_unit_facts (snd (src_dims ss k)) (snd ds) tx (Qltb (aa A) 0) (snd rs) (snd rd) /\
    roi_src r = up_roi rs k /\ roi_dst r = rd /\
    Qabs (ab A) < c_st c /\ Qabs (ad A) < c_st c /\
    Qabs (Qabs (aa A) / inject_Z k - 1) < stol /\ Qabs (Qabs (ae A) / inject_Z k - 1) < stol /\
    Qabs (ac A / inject_Z k - inject_Z tx) < ttol /\ Qabs (ac A / inject_Z k - inject_Z tx) <= half /\
    Qabs (af A / inject_Z k - inject_Z ty) < ttol /\ Qabs (af A / inject_Z k - inject_Z ty) <= half.
Proof. exact paste_structure. Qed.
Print Assumptions C10_shrink_region_structure.

(** * paste eligibility: what [_can_paste] = True means, and that the snap that follows agrees *)
Theorem C10_can_paste_sound :
  forall c A stol ttol,
  can_paste c A stol ttol = Ok true -> tol_ok c stol ->
  exists sx sy k tx ty,
    scale2 A = Ok (sx, sy) /\ pick_read_scale (Qminq sx sy) (c_rs c) = Ok k /\ (1 <= k)%Z /\
    (* no rotation / shear beyond 1e-10 *)
    Qabs (ab A) < c_st c /\ Qabs (ad A) < c_st c /\
    (* near-integer scale *)
    (exists z, Qabs (Qminq sx sy - inject_Z z) < stol) /\
    (* both axes within stol (relative) of the integer read scale k *)
    Qabs (Qabs (aa A) / inject_Z k - 1) < stol /\ Qabs (Qabs (ae A) / inject_Z k - 1) < stol /\
    (* sub-pixel shift (in overview pixels) below ttol *)
    Qabs (ac A / inject_Z k - inject_Z tx) < ttol /\ Qabs (af A / inject_Z k - inject_Z ty) < ttol /\
    (* and snap_affine then yields exactly (+-1, whole-pixel shift): tolerance tests and snap agree *)
    paste_affine c A ttol stol k =
      mkAff (unit_q (Qltb (aa A) 0)) 0 (inject_Z tx) 0 (unit_q (Qltb (ae A) 0)) (inject_Z ty).
Proof. exact can_paste_sound. Qed.
Print Assumptions C10_can_paste_sound.

Theorem C10_never_paste_with_rotation_or_shear :
  forall c A stol ttol,
  c_st c <= Qabs (ab A) \/ c_st c <= Qabs (ad A) -> can_paste c A stol ttol = Ok false.
Proof. exact can_paste_rotation. Qed.
Print Assumptions C10_never_paste_with_rotation_or_shear.

(** paste is only planned by compute_reproject_roi when the caller asked for no padding/alignment *)
Theorem C10_paste_only_when_tight :
  forall c ss ds A F ttol stol padding align r,
  reproject_linear c ss ds A F ttol stol padding align = Ok r -> paste_ok r = true ->
  opt_in0 (norm_align align) = true /\ opt_in0 padding = true /\ can_paste_code c A stol ttol = Ok 0%Z.
Proof. exact paste_only_tight. Qed.
Print Assumptions C10_paste_only_when_tight.

(** * Non-vacuity *)
Definition cdef : consts := mkConsts (1 # 10000000000) (1 # 100000000) (1 # 1000).

(** mirrored in x, shift 7 + 1/32 (below ttol = 1/20): planned, and the 3x4 pasted image of a
    5x9 source equals the warp image computed from the TRUE transform *)
Example C10_ex_paste :
  let A := mkAff (-(1)) 0 (7 + (1#32)) 0 1 (-(1)) in
  let F := mkAff (-(1)) 0 (7 + (1#32)) 0 1 1 in
  let src := fun y x => (10 * y + x)%Z in
  exists r, reproject_linear cdef (5, 9)%Z (3, 4)%Z A F (1#20) (1#1000) None None = Ok r /\
    paste_ok r = true /\ read_shrink r = 1%Z /\ roi_src r = ((0, 2), (3, 7))%Z /\ roi_dst r = ((1, 3), (0, 4))%Z /\
    render (paste_img src (-1)%Z (roi_src r) (roi_dst r) (Qltb (ae A) 0) (Qltb (aa A) 0)) (3, 4)%Z =
    render (warp_nn src (-1)%Z (5, 9)%Z (pix_loc A)) (3, 4)%Z /\
    render (warp_nn src (-1)%Z (5, 9)%Z (pix_loc A)) (3, 4)%Z =
      [[-1; -1; -1; -1]; [6; 5; 4; 3]; [16; 15; 14; 13]]%Z.
Proof.
  eexists. split; [vm_compute; reflexivity|]. cbn [paste_ok read_shrink roi_src roi_dst].
  repeat split; vm_compute; reflexivity.
Qed.

Example C10_ex_can_paste :
  can_paste cdef (mkAff 3 0 (6 + (1#10)) 0 (-(3)) 9) (1#1000) (1#20) = Ok true /\
  can_paste cdef (mkAff 3 0 (6 + (1#5)) 0 (-(3)) 9) (1#1000) (1#20) = Ok false /\
  can_paste cdef (mkAff (5#2) 0 6 0 (-(5#2)) 9) (1#1000) (1#20) = Ok false /\
  tol_ok cdef (1#1000).
Proof. repeat split; try (vm_compute; reflexivity); unfold half; cbn; auto with qarith; discriminate. Qed.

(** Tie to the source: the definitions regenerated by tools/py2v from the current odc/geo/overlap.py and odc/geo/math.py (coq/Gen/MathGen.v, rewritten on every run) are the model (Model/Overlap.v) the theorems above are stated on, up to the error kind. *)
From OG Require Proofs.MathGenEquivO.
Theorem C10_source_is_model : OG.Proofs.MathGenEquivO.overlap_source_is_model.
Proof. exact OG.Proofs.MathGenEquivO.overlap_source_is_model_holds. Qed.
Print Assumptions C10_source_is_model.
