(** placeholder, replaced below *)
From Coq Require Import ZArith QArith List Bool String.
From OG Require Import Base.Result Model.XrCoords Model.XrCoordsCases.
Theorem C09_placeholder : True.
Proof. exact I. Qed.
Print Assumptions C09_placeholder.
