(** Property C09 — xarray geo-registration round-trips and survives array operations.

    Only statements, each closed by [exact] of a lemma from Proofs/XrCoordsProofs.v,
    followed by [Print Assumptions].  The model (Model/XrCoords.v) follows
    odc/geo/_xr_interop.py (xr_coords, wrap_xr, _locate_geo_info, _xr_reproject_da/_ds),
    odc.geo.math.affine_from_axis / data_resolution_and_offset / resolution_from_affine and
    GeoBox.coordinates over exact rationals.  Vocabulary used below (all defined in the Model
    file): [wrap_xr tol box ntime nband nodata crs_coord_name user_attrs], [locate_geo_info]
    (what the [.odc] accessor computes), [run_history] over [OIsel dim slice] (positional
    slicing with any bounds and any non-zero step) and [OElem dims gm attrs] (any operation
    that keeps all coordinates and does not invent grid_mapping/crs attributes: arithmetic,
    astype, pickle, copy, transpose -- the xarray contract validated by the harness),
    [axis_idx d (iota n) h] = the composed index map of history [h] along dimension [d],
    [reproject_da]/[reproject_ds] = output assembly of the reprojection.  [repaired] selects
    the code after the three fixes made for this property; the [_unrepaired_..._refuted]
    theorems show what the code did before. *)
From Coq Require Import ZArith QArith List Bool String Lia.
From OG Require Import Base.Result Model.XrCoords Proofs.XrCoordsProofs.
Import ListNotations.
Open Scope string_scope.
Open Scope Z_scope.
Open Scope list_scope.

(* ================================================================== wrap, read back *)
(** Axis-aligned GeoBox of any shape, any sign of the resolutions, with or without CRS, with
    optional time/band axes: the recovered GeoBox has the wrapped shape, CRS and matrix.  A
    single row/column needs the CRS coordinate (it carries the GeoTransform).  The matrix
    written to the labels has b = d = 0 (shear below the is_affine_st tolerance is dropped by
    the code). *)
Theorem C09_roundtrip_axis_aligned :
  forall tol (g : gbox) nt nb nd name user x0,
    is_affine_st tol (g_aff g) = true -> 1 <= g_ny g -> 1 <= g_nx g ->
    let t := g_aff g in
    let yd := fst (crs_dims (g_crs g)) in
    let xd := snd (crs_dims (g_crs g)) in
    name_ok name yd xd -> clean_attrs user ->
    ((2 <= g_ny g /\ 2 <= g_nx g) \/ (name <> None /\ g_crs g <> None)) ->
    wrap_xr tol (ABox g) nt nb nd name user = Ok x0 ->
    exists T,
      locate_geo_info repaired tol x0 =
        Ok (GeoState (Some (yd, xd)) (g_crs g) (Some T) (Some (ABox (GBox (g_ny g) (g_nx g) T (g_crs g))))) /\
      aff_eq T (Aff (fa t) 0 (fc t) 0 (fe t) (ff t)).
Proof. exact roundtrip_axis_aligned. Qed.
Print Assumptions C09_roundtrip_axis_aligned.

(** Rotated / sheared GeoBox, any shape >= 1x1 (pixel-space labels + encoded transform).  The
    CRS is recovered through the CRS coordinate (without one nothing carries it). *)
Theorem C09_roundtrip_rotated :
  forall tol (g : gbox) nt nb nd name user x0,
    is_affine_st tol (g_aff g) = false -> 1 <= g_ny g -> 1 <= g_nx g ->
    let t := g_aff g in
    let yd := fst (crs_dims (g_crs g)) in
    let xd := snd (crs_dims (g_crs g)) in
    let c := match name with Some _ => g_crs g | None => None end in
    name_ok name yd xd -> clean_attrs user ->
    wrap_xr tol (ABox g) nt nb nd name user = Ok x0 ->
    exists T,
      locate_geo_info repaired tol x0 =
        Ok (GeoState (Some (yd, xd)) c (Some T) (Some (ABox (GBox (g_ny g) (g_nx g) T c)))) /\
      aff_eq T t.
Proof. exact roundtrip_rotated. Qed.
Print Assumptions C09_roundtrip_rotated.

(** GCP based GeoBox with invertible own transform [a]: the recovered GCPGeoBox carries the
    same GCPs expressed in the pixel frame of the wrapped GeoBox ([gcps_of (a^-1) pts]) and the
    identity as its own transform, i.e. the same pixel -> GCP-frame map. *)
Theorem C09_roundtrip_gcp :
  forall tol ny nx a pts crs ai nt nb nd n user x0,
    aff_inv a = Some ai -> 1 <= ny -> 1 <= nx ->
    let yd := fst (crs_dims (Some crs)) in
    let xd := snd (crs_dims (Some crs)) in
    name_ok (Some n) yd xd -> clean_attrs user ->
    wrap_xr tol (AGcp ny nx a pts (Some crs)) nt nb nd (Some n) user = Ok x0 ->
    exists T,
      locate_geo_info repaired tol x0 =
        Ok (GeoState (Some (yd, xd)) (Some crs) (Some T) (Some (AGcp ny nx T (gcps_of ai pts) (Some crs)))) /\
      aff_eq T aff_id.
Proof. exact roundtrip_gcp. Qed.
Print Assumptions C09_roundtrip_gcp.

(* ================================================================== operation histories *)
(** Every index a Python slice selects is a valid position: the operation algebra's basis. *)
Theorem C09_slice_selects_valid_positions :
  forall n s start step m,
    0 <= n -> slice_adjust n s = Ok (start, step, m) ->
    step <> 0 /\ 0 <= m /\ forall k, 0 <= k < m -> 0 <= start + k * step < n.
Proof. exact slice_adjust_spec. Qed.
Print Assumptions C09_slice_selects_valid_positions.

(** The composed index map of every history is an arithmetic progression of original indices. *)
Theorem C09_index_map_is_arithmetic :
  forall d n h idx, 0 <= n -> axis_idx d (iota n) h = Ok idx ->
    exists p q m, 0 <= m /\ idx = ap p q m /\ forall k, 0 <= k < m -> 0 <= p + q * k < n.
Proof. exact ap_of_history. Qed.
Print Assumptions C09_index_map_is_arithmetic.

(** Axis-aligned GeoBox, EVERY finite history [h] of positional slices (any bounds, positive
    and negative steps) and contract-respecting element-wise operations: with [iy]/[ix] the
    composed index maps, the recovered GeoBox has the remaining shape and the CRS, its matrix
    is axis-aligned, the coordinate labels of the array are the labels of the original pixels
    [iy]/[ix], and the centre of remaining pixel (j, k) is mapped to the label -- the world
    location of the centre -- of original pixel (iy[j], ix[k]).  Moreover the matrix equals
    affine_from_axis of the current labels: resolution r*q and the matching offset for axes
    with >= 2 labels, the GeoTransform resolution for single-label axes. *)
Theorem C09_history_axis_aligned :
  forall tol (g : gbox) nt nb nd name user h x0 x iy ix,
    is_affine_st tol (g_aff g) = true -> 0 <= g_ny g -> 0 <= g_nx g ->
    let t := g_aff g in
    let yd := fst (crs_dims (g_crs g)) in
    let xd := snd (crs_dims (g_crs g)) in
    name_ok name yd xd -> clean_attrs user ->
    wrap_xr tol (ABox g) nt nb nd name user = Ok x0 ->
    run_history x0 h = Ok x ->
    axis_idx yd (iota (g_ny g)) h = Ok iy -> axis_idx xd (iota (g_nx g)) h = Ok ix ->
    1 <= zlen iy -> 1 <= zlen ix ->
    ((2 <= zlen iy /\ 2 <= zlen ix) \/ (name <> None /\ g_crs g <> None)) ->
    exists T,
      locate_geo_info repaired tol x =
        Ok (GeoState (Some (yd, xd)) (g_crs g) (Some T) (Some (ABox (GBox (zlen iy) (zlen ix) T (g_crs g))))) /\
      fb T == 0 /\ fd T == 0 /\
      (exists cy cx, lookup yd (x_coords x) = Some cy /\ lookup xd (x_coords x) = Some cx /\
                     co_vals cy = map (label (ff t) (fe t)) iy /\ co_vals cx = map (label (fc t) (fa t)) ix) /\
      (forall j k, 0 <= j < zlen iy -> 0 <= k < zlen ix ->
         fst (aff_apply T (inject_Z k + (1 # 2)) (inject_Z j + (1 # 2))) == label (fc t) (fa t) (nth (Z.to_nat k) ix 0) /\
         snd (aff_apply T (inject_Z k + (1 # 2)) (inject_Z j + (1 # 2))) == label (ff t) (fe t) (nth (Z.to_nat j) iy 0)) /\
      (2 <= zlen ix -> exists px qx, ix = ap px qx (zlen ix) /\ fa T == fa t * inject_Z qx /\
                                     fc T == fc t + fa t * inject_Z px + fa t / 2 - fa t * inject_Z qx / 2) /\
      (2 <= zlen iy -> exists py qy, iy = ap py qy (zlen iy) /\ fe T == fe t * inject_Z qy /\
                                     ff T == ff t + fe t * inject_Z py + fe t / 2 - fe t * inject_Z qy / 2) /\
      (zlen ix = 1 -> fa T == fa t) /\ (zlen iy = 1 -> fe T == fe t).
Proof. exact history_axis_aligned. Qed.
Print Assumptions C09_history_axis_aligned.

(** [label tx rx i] IS the world x of the centre of pixel column [i] of an axis-aligned grid
    (b = d = 0), so the statement above is about world locations. *)
Theorem C09_label_is_pixel_centre :
  forall (t : aff) i j, fb t == 0 -> fd t == 0 ->
    fst (aff_apply t (inject_Z i + (1 # 2)) (inject_Z j + (1 # 2))) == label (fc t) (fa t) i /\
    snd (aff_apply t (inject_Z i + (1 # 2)) (inject_Z j + (1 # 2))) == label (ff t) (fe t) j.
Proof.
  intros t i j Hb Hd. unfold aff_apply, label; simpl. rewrite Hb, Hd. split; field.
Qed.
Print Assumptions C09_label_is_pixel_centre.

(** Rotated / sheared GeoBox, every history: the labels are pixel-space labels of the original
    pixels, the recovered matrix is (encoded transform) * (affine_from_axis of the labels) and
    maps the centre of remaining pixel (j, k) to the world location of the centre of original
    pixel (iy[j], ix[k]).  No CRS or minimum size is needed (pixel-space labels fall back to a
    unit resolution). *)
Theorem C09_history_rotated :
  forall tol (g : gbox) nt nb nd name user h x0 x iy ix,
    is_affine_st tol (g_aff g) = false -> 0 <= g_ny g -> 0 <= g_nx g ->
    let t := g_aff g in
    let yd := fst (crs_dims (g_crs g)) in
    let xd := snd (crs_dims (g_crs g)) in
    let c := match name with Some _ => g_crs g | None => None end in
    name_ok name yd xd -> clean_attrs user ->
    wrap_xr tol (ABox g) nt nb nd name user = Ok x0 ->
    run_history x0 h = Ok x ->
    axis_idx yd (iota (g_ny g)) h = Ok iy -> axis_idx xd (iota (g_nx g)) h = Ok ix ->
    1 <= zlen iy -> 1 <= zlen ix ->
    exists T,
      locate_geo_info repaired tol x =
        Ok (GeoState (Some (yd, xd)) c (Some (aff_mul t T)) (Some (ABox (GBox (zlen iy) (zlen ix) (aff_mul t T) c)))) /\
      fb T == 0 /\ fd T == 0 /\
      (exists cy cx, lookup yd (x_coords x) = Some cy /\ lookup xd (x_coords x) = Some cx /\
                     co_vals cy = map pix_label iy /\ co_vals cx = map pix_label ix /\ co_tr cx = Some t) /\
      (forall j k, 0 <= j < zlen iy -> 0 <= k < zlen ix ->
         fst (aff_apply T (inject_Z k + (1 # 2)) (inject_Z j + (1 # 2))) == pix_label (nth (Z.to_nat k) ix 0) /\
         snd (aff_apply T (inject_Z k + (1 # 2)) (inject_Z j + (1 # 2))) == pix_label (nth (Z.to_nat j) iy 0) /\
         fst (aff_apply (aff_mul t T) (inject_Z k + (1 # 2)) (inject_Z j + (1 # 2))) ==
           fst (aff_apply t (inject_Z (nth (Z.to_nat k) ix 0) + (1 # 2)) (inject_Z (nth (Z.to_nat j) iy 0) + (1 # 2))) /\
         snd (aff_apply (aff_mul t T) (inject_Z k + (1 # 2)) (inject_Z j + (1 # 2))) ==
           snd (aff_apply t (inject_Z (nth (Z.to_nat k) ix 0) + (1 # 2)) (inject_Z (nth (Z.to_nat j) iy 0) + (1 # 2)))) /\
      (2 <= zlen ix -> exists px qx, ix = ap px qx (zlen ix) /\ fa T == inject_Z qx /\
                                     fc T == inject_Z px + (1 # 2) - inject_Z qx / 2) /\
      (2 <= zlen iy -> exists py qy, iy = ap py qy (zlen iy) /\ fe T == inject_Z qy /\
                                     ff T == inject_Z py + (1 # 2) - inject_Z qy / 2) /\
      (zlen ix = 1 -> fa T == 1) /\ (zlen iy = 1 -> fe T == 1).
Proof. exact history_rotated. Qed.
Print Assumptions C09_history_rotated.

(** GCP based GeoBox, every history: the recovered GCPGeoBox keeps the GCPs and its own
    transform maps the centre of remaining pixel (j, k) to the centre of original pixel
    (iy[j], ix[k]) in the pixel frame the GCPs are expressed in. *)
Theorem C09_history_gcp :
  forall tol ny nx a pts crs ai nt nb nd n user h x0 x iy ix,
    aff_inv a = Some ai -> 0 <= ny -> 0 <= nx ->
    let yd := fst (crs_dims (Some crs)) in
    let xd := snd (crs_dims (Some crs)) in
    name_ok (Some n) yd xd -> clean_attrs user ->
    wrap_xr tol (AGcp ny nx a pts (Some crs)) nt nb nd (Some n) user = Ok x0 ->
    run_history x0 h = Ok x ->
    axis_idx yd (iota ny) h = Ok iy -> axis_idx xd (iota nx) h = Ok ix ->
    1 <= zlen iy -> 1 <= zlen ix ->
    exists T,
      locate_geo_info repaired tol x =
        Ok (GeoState (Some (yd, xd)) (Some crs) (Some T)
                     (Some (AGcp (zlen iy) (zlen ix) T (gcps_of ai pts) (Some crs)))) /\
      fb T == 0 /\ fd T == 0 /\
      (forall j k, 0 <= j < zlen iy -> 0 <= k < zlen ix ->
         fst (aff_apply T (inject_Z k + (1 # 2)) (inject_Z j + (1 # 2))) == inject_Z (nth (Z.to_nat k) ix 0) + (1 # 2) /\
         snd (aff_apply T (inject_Z k + (1 # 2)) (inject_Z j + (1 # 2))) == inject_Z (nth (Z.to_nat j) iy 0) + (1 # 2)) /\
      (2 <= zlen ix -> exists px qx, ix = ap px qx (zlen ix) /\ fa T == inject_Z qx /\
                                     fc T == inject_Z px + (1 # 2) - inject_Z qx / 2) /\
      (2 <= zlen iy -> exists py qy, iy = ap py qy (zlen iy) /\ fe T == inject_Z qy /\
                                     ff T == inject_Z py + (1 # 2) - inject_Z qy / 2) /\
      (zlen ix = 1 -> fa T == 1) /\ (zlen iy = 1 -> fe T == 1).
Proof. exact history_gcp. Qed.
Print Assumptions C09_history_gcp.

(* ================================================================== reprojection output assembly *)
(** attribute pruning: nothing in SPATIAL_ATTRIBUTES survives, everything else except the
    nodata bookkeeping is untouched *)
Theorem C09_output_attrs_pruned :
  forall itol (a : attrs) nd k,
    (In k SPATIAL_ATTRIBUTES -> lookup k (out_attrs itol a nd) = None) /\
    (~ In k SPATIAL_ATTRIBUTES -> k <> "nodata" -> k <> "_FillValue" ->
     lookup k (out_attrs itol a nd) = lookup k a).
Proof. intros; split; [apply out_attrs_spatial | apply out_attrs_other]. Qed.
Print Assumptions C09_output_attrs_pruned.

(** the coordinates of the output: the destination's win, all others are kept source
    coordinates (not CRS coordinates, not along the spatial dimensions) *)
Theorem C09_output_coords :
  forall (kept new : coords) k,
    lookup k (aupdate kept new) = match lookup k (rev new) with Some c => Some c | None => lookup k kept end.
Proof. exact out_coords_spec. Qed.
Print Assumptions C09_output_coords.

(** DataArray, axis-aligned destination: for ANY geo-registered source (spatial dims adjacent,
    other dims not named like spatial ones) the output carries exactly xr_coords(dst) on top of
    the kept coordinates, pruned attributes, grid_mapping = spatial_ref, and its recovered
    GeoBox is the destination: shape, CRS and matrix. *)
Theorem C09_reproject_dataarray :
  forall tol itol src (dst : gbox) nd st sb syd sxd pre post n1 n2 cd,
    locate_geo_info repaired tol src = Ok st -> gs_box st = Some sb -> box_crs sb <> None ->
    gs_sdims st = Some (syd, sxd) ->
    x_dims src = pre ++ [(syd, n1); (sxd, n2)] ++ post ->
    syd <> sxd -> other_dims_ok (pre ++ post) syd sxd ->
    g_crs dst = Some cd -> 1 <= g_ny dst -> 1 <= g_nx dst ->
    is_affine_st tol (g_aff dst) = true ->
    exists new out T,
      xr_coords tol (ABox dst) (Some DEFAULT_CRS_COORD_NAME) = Ok new /\
      reproject_da repaired tol itol src dst nd = Ok out /\
      x_coords out = aupdate (filter (fun nc => keep_pred syd sxd (snd nc)) (x_coords src)) new /\
      x_attrs out = out_attrs itol (x_attrs src) nd /\
      x_gm out = Some DEFAULT_CRS_COORD_NAME /\
      x_dims out = pre ++ [(fst (crs_dims (g_crs dst)), g_ny dst); (snd (crs_dims (g_crs dst)), g_nx dst)] ++ post /\
      locate_geo_info repaired tol out =
        Ok (GeoState (Some (fst (crs_dims (g_crs dst)), snd (crs_dims (g_crs dst)))) (Some cd) (Some T)
                     (Some (ABox (GBox (g_ny dst) (g_nx dst) T (Some cd))))) /\
      aff_eq T (Aff (fa (g_aff dst)) 0 (fc (g_aff dst)) 0 (fe (g_aff dst)) (ff (g_aff dst))).
Proof. exact reproject_da_st. Qed.
Print Assumptions C09_reproject_dataarray.

(** ... and for a rotated / sheared destination *)
Theorem C09_reproject_dataarray_rotated_dst :
  forall tol itol src (dst : gbox) nd st sb syd sxd pre post n1 n2 cd,
    locate_geo_info repaired tol src = Ok st -> gs_box st = Some sb -> box_crs sb <> None ->
    gs_sdims st = Some (syd, sxd) ->
    x_dims src = pre ++ [(syd, n1); (sxd, n2)] ++ post ->
    syd <> sxd -> other_dims_ok (pre ++ post) syd sxd ->
    g_crs dst = Some cd -> 1 <= g_ny dst -> 1 <= g_nx dst ->
    is_affine_st tol (g_aff dst) = false ->
    exists new out T,
      xr_coords tol (ABox dst) (Some DEFAULT_CRS_COORD_NAME) = Ok new /\
      reproject_da repaired tol itol src dst nd = Ok out /\
      x_coords out = aupdate (filter (fun nc => keep_pred syd sxd (snd nc)) (x_coords src)) new /\
      x_attrs out = out_attrs itol (x_attrs src) nd /\
      x_gm out = Some DEFAULT_CRS_COORD_NAME /\
      x_dims out = pre ++ [(fst (crs_dims (g_crs dst)), g_ny dst); (snd (crs_dims (g_crs dst)), g_nx dst)] ++ post /\
      locate_geo_info repaired tol out =
        Ok (GeoState (Some (fst (crs_dims (g_crs dst)), snd (crs_dims (g_crs dst)))) (Some cd) (Some T)
                     (Some (ABox (GBox (g_ny dst) (g_nx dst) T (Some cd))))) /\
      aff_eq T (g_aff dst).
Proof. exact reproject_da_rot. Qed.
Print Assumptions C09_reproject_dataarray_rotated_dst.

(** Dataset (repaired code): the Dataset's attributes are pruned and, for EVERY geo-registered
    data variable, its attributes are pruned and the DataArray [out[name]] recovers the
    destination GeoBox with its CRS.  Variables passed through without a geobox must not bring
    coordinates/dimensions named like the destination's (xarray would then merge/align them). *)
Theorem C09_reproject_dataset :
  forall tol itol src (dst : gbox) nd out cd,
    reproject_ds repaired tol itol src dst nd = Ok out ->
    NoDup (map fst (x_vars src)) ->
    g_crs dst = Some cd -> 1 <= g_ny dst -> 1 <= g_nx dst ->
    is_affine_st tol (g_aff dst) = true ->
    let t := g_aff dst in
    let dy := fst (crs_dims (g_crs dst)) in
    let dx := snd (crs_dims (g_crs dst)) in
    (forall nv, In nv (x_vars src) ->
       (exists syd sxd pre post, geo_var tol src nv syd sxd pre post) \/ plain_var tol itol src dst nd nv) ->
    (forall k, In k SPATIAL_ATTRIBUTES -> lookup k (x_attrs out) = None) /\
    (forall k, ~ In k SPATIAL_ATTRIBUTES -> lookup k (x_attrs out) = lookup k (x_attrs src)) /\
    forall nv syd sxd pre post,
      In nv (x_vars src) -> geo_var tol src nv syd sxd pre post ->
      exists v view T,
        lookup (fst nv) (x_vars out) = Some v /\
        (forall k, In k SPATIAL_ATTRIBUTES -> lookup k (v_attrs v) = None) /\
        ds_getitem out (fst nv) = Some view /\
        locate_geo_info repaired tol view =
          Ok (GeoState (Some (dy, dx)) (Some cd) (Some T) (Some (ABox (GBox (g_ny dst) (g_nx dst) T (Some cd))))) /\
        aff_eq T (Aff (fa t) 0 (fc t) 0 (fe t) (ff t)).
Proof. exact reproject_ds_st. Qed.
Print Assumptions C09_reproject_dataset.

Theorem C09_reproject_dataset_rotated_dst :
  forall tol itol src (dst : gbox) nd out cd,
    reproject_ds repaired tol itol src dst nd = Ok out ->
    NoDup (map fst (x_vars src)) ->
    g_crs dst = Some cd -> 1 <= g_ny dst -> 1 <= g_nx dst ->
    is_affine_st tol (g_aff dst) = false ->
    let t := g_aff dst in
    let dy := fst (crs_dims (g_crs dst)) in
    let dx := snd (crs_dims (g_crs dst)) in
    (forall nv, In nv (x_vars src) ->
       (exists syd sxd pre post, geo_var tol src nv syd sxd pre post) \/ plain_var tol itol src dst nd nv) ->
    (forall k, In k SPATIAL_ATTRIBUTES -> lookup k (x_attrs out) = None) /\
    (forall k, ~ In k SPATIAL_ATTRIBUTES -> lookup k (x_attrs out) = lookup k (x_attrs src)) /\
    forall nv syd sxd pre post,
      In nv (x_vars src) -> geo_var tol src nv syd sxd pre post ->
      exists v view T,
        lookup (fst nv) (x_vars out) = Some v /\
        (forall k, In k SPATIAL_ATTRIBUTES -> lookup k (v_attrs v) = None) /\
        ds_getitem out (fst nv) = Some view /\
        locate_geo_info repaired tol view =
          Ok (GeoState (Some (dy, dx)) (Some cd) (Some T) (Some (ABox (GBox (g_ny dst) (g_nx dst) T (Some cd))))) /\
        aff_eq T t.
Proof. exact reproject_ds_rot. Qed.
Print Assumptions C09_reproject_dataset_rotated_dst.

(* ================================================================== non-vacuity *)
Definition ex_tol : Q := 1 # 10000000000.
Definition ex_itol : Q := 1 # 1000000.
Definition c4326 := Crs 4326 true.
Definition c3857 := Crs 3857 false.
Definition ex_g := GBox 4 5 (Aff 2 0 10 0 (-4) 20) (Some c3857).
Definition ex_hist : list op :=
  [OIsel "y" (PySlice None None (Some (-1)));          (* reverse the rows *)
   OElem [("time", 2); ("y", 4); ("x", 5)] None [];    (* arithmetic: attrs and encoding dropped *)
   OIsel "x" (PySlice (Some 1) None (Some 2));         (* every second column from 1 *)
   OIsel "time" (PySlice (Some 0) (Some 1) None)].

(** hypotheses of the history theorem are satisfiable and the conclusion is what one expects:
    rows reversed (resolution +4 from the far edge), columns strided (resolution 4) *)
Example C09_history_example :
  exists x0 x,
    wrap_xr ex_tol (ABox ex_g) (Some 2) None (Some 255%Q) (Some "spatial_ref") [("foo", VStr "bar")] = Ok x0 /\
    run_history x0 ex_hist = Ok x /\
    axis_idx "y" (iota 4) ex_hist = Ok [3; 2; 1; 0] /\ axis_idx "x" (iota 5) ex_hist = Ok [1; 3] /\
    (exists st g', locate_geo_info repaired ex_tol x = Ok st /\ gs_box st = Some (ABox g') /\
                   gbox_eqb g' (GBox 4 2 (Aff 4 0 11 0 4 4) (Some c3857)) = true).
Proof.
  eexists _, _. split; [vm_compute; reflexivity|]. split; [vm_compute; reflexivity|].
  split; [vm_compute; reflexivity|]. split; [vm_compute; reflexivity|].
  eexists _, _. split; [vm_compute; reflexivity|]. split; [reflexivity | vm_compute; reflexivity].
Qed.

Example C09_name_ok_example : name_ok (Some "spatial_ref") "y" "x" /\ clean_attrs [("foo", VStr "bar")].
Proof. split; [repeat split; discriminate | repeat split; reflexivity]. Qed.

(** a source DataArray and a Dataset built from it, reprojected with the repaired code *)
Definition ex_src_g := GBox 2 3 (Aff 1 0 10 0 (-1) 20) (Some c4326).
Definition ex_da : xobj :=
  match wrap_xr ex_tol (ABox ex_src_g) None None None (Some "spatial_ref") [("crs", VCrs c4326)] with
  | Ok x => x | Err _ => XObj false [] None [] [] []
  end.
Definition ex_ds : xobj :=
  XObj true (x_dims ex_da) None [("crs", VCrs c4326); ("title", VStr "t")] (x_coords ex_da)
       [("a", XVar ["latitude"; "longitude"] (x_attrs ex_da) (x_gm ex_da))].
Definition ex_dst := GBox 2 2 (Aff 65536 0 1000000 0 (-65536) 2000000) (Some c3857).

Example C09_reproject_example :
  exists out view st,
    reproject_ds repaired ex_tol ex_itol ex_ds ex_dst None = Ok out /\
    lookup "crs" (x_attrs out) = None /\ lookup "title" (x_attrs out) = Some (VStr "t") /\
    ds_getitem out "a" = Some view /\ lookup "crs" (x_attrs view) = None /\
    locate_geo_info repaired ex_tol view = Ok st /\ gs_crs st = Some c3857 /\
    (exists g', gs_box st = Some (ABox g') /\ gbox_eqb g' ex_dst = true) /\
    geo_var ex_tol ex_ds ("a", XVar ["latitude"; "longitude"] (x_attrs ex_da) (x_gm ex_da))
            "latitude" "longitude" [] [].
Proof.
  eexists _, _, _. split; [vm_compute; reflexivity|]. split; [reflexivity|]. split; [reflexivity|].
  split; [vm_compute; reflexivity|]. split; [reflexivity|]. split; [vm_compute; reflexivity|].
  split; [reflexivity|]. split.
  - eexists. split; [reflexivity | vm_compute; reflexivity].
  - split; [|split; [vm_compute; reflexivity | split; [discriminate | intros dn []]]].
    eexists _, _, _, _, _. split; [vm_compute; reflexivity|]. split; [vm_compute; reflexivity|].
    split; [reflexivity|]. split; [discriminate|]. split; reflexivity.
Qed.

(* ================================================================== the code before the repairs *)
(** F9.  Dataset.map of the installed xarray copies the source attributes back: the
    reprojected Dataset keeps the stale [crs] attributes and its variable reports the SOURCE
    CRS (the spatial_ref coordinate got the source's attributes back). *)
Theorem C09_unrepaired_dataset_map_refuted :
  exists src dst out v view st,
    g_crs dst = Some c3857 /\
    reproject_ds (Fixes false true true true) ex_tol ex_itol src dst None = Ok out /\
    lookup "crs" (x_attrs out) = Some (VCrs c4326) /\
    lookup "a" (x_vars out) = Some v /\ lookup "crs" (v_attrs v) = Some (VCrs c4326) /\
    ds_getitem out "a" = Some view /\
    locate_geo_info repaired ex_tol view = Ok st /\ gs_crs st = Some c4326.
Proof.
  exists ex_ds, ex_dst. eexists _, _, _, _.
  split; [reflexivity|]. split; [vm_compute; reflexivity|]. split; [reflexivity|].
  split; [reflexivity|]. split; [reflexivity|]. split; [vm_compute; reflexivity|].
  split; [vm_compute; reflexivity | reflexivity].
Qed.
Print Assumptions C09_unrepaired_dataset_map_refuted.

(** A rotated GeoBox with a single row: the one-label pixel-space axis fell back to the WORLD
    resolution of the GeoTransform (5) instead of one pixel per label. *)
Theorem C09_unrepaired_rotated_single_row_refuted :
  exists (g : gbox) x0 st g',
    is_affine_st ex_tol (g_aff g) = false /\ g_ny g = 1 /\
    wrap_xr ex_tol (ABox g) None None None (Some "spatial_ref") [] = Ok x0 /\
    locate_geo_info (Fixes true false true true) ex_tol x0 = Ok st /\ gs_box st = Some (ABox g') /\
    aff_eqb (g_aff g') (Aff 3 (-20) 108 4 15 194) = true /\ aff_eqb (g_aff g') (g_aff g) = false.
Proof.
  exists (GBox 1 5 (Aff 3 (-4) 100 4 3 200) (Some c3857)). eexists _, _, _.
  split; [reflexivity|]. split; [reflexivity|]. split; [vm_compute; reflexivity|].
  split; [vm_compute; reflexivity|]. split; [reflexivity|]. split; vm_compute; reflexivity.
Qed.
Print Assumptions C09_unrepaired_rotated_single_row_refuted.

(** A GCP based array sliced to one row (row 3, columns 2..4): without a GeoTransform to fall
    back to the transform was dropped, the recovered GCPGeoBox starts at pixel (0, 0). *)
Theorem C09_unrepaired_gcp_single_row_refuted :
  exists b x0 x st,
    wrap_xr ex_tol b None None None (Some "spatial_ref") [] = Ok x0 /\
    run_history x0 [OIsel "y" (PySlice (Some 3) (Some 4) None); OIsel "x" (PySlice (Some 2) (Some 5) None)] = Ok x /\
    axis_idx "y" (iota 8) [OIsel "y" (PySlice (Some 3) (Some 4) None); OIsel "x" (PySlice (Some 2) (Some 5) None)] = Ok [3] /\
    axis_idx "x" (iota 10) [OIsel "y" (PySlice (Some 3) (Some 4) None); OIsel "x" (PySlice (Some 2) (Some 5) None)] = Ok [2; 3; 4] /\
    locate_geo_info (Fixes true true false true) ex_tol x = Ok st /\ gs_transform st = None /\
    (exists pts c, gs_box st = Some (AGcp 1 3 aff_id pts c)).
Proof.
  exists (AGcp 8 10 aff_id [(0, 0, 100, 200); (10, 0, 120, 200); (0, 8, 100, 160); (10, 8, 120, 160); (5, 4, 110, 180)]%Q (Some c3857)).
  eexists _, _, _.
  split; [vm_compute; reflexivity|]. split; [vm_compute; reflexivity|].
  split; [vm_compute; reflexivity|]. split; [vm_compute; reflexivity|].
  split; [vm_compute; reflexivity|]. split; [reflexivity|]. eexists _, _. reflexivity.
Qed.
Print Assumptions C09_unrepaired_gcp_single_row_refuted.

(** Before repair 2e3019e a variable that does not span the Dataset's spatial dimensions -- here a
    (time, band) table without coordinates, which inherits the scalar CRS coordinate -- was taken
    for a raster (relaxed spatial dims = its last two dimensions, transform = the GeoTransform),
    warped, and came back with dimensions (y, x).  The repaired code passes it through. *)
Definition ex_ds_table : xobj :=
  XObj true (x_dims ex_da ++ [("time", 2); ("band", 3)]) None [] (x_coords ex_da)
       [("a", XVar ["latitude"; "longitude"] (x_attrs ex_da) (x_gm ex_da));
        ("w", XVar ["time"; "band"] [] None)].

Theorem C09_unrepaired_nonspatial_variable_warped_refuted :
  exists out v out' v',
    reproject_ds (Fixes true true true false) ex_tol ex_itol ex_ds_table ex_dst None = Ok out /\
    lookup "w" (x_vars out) = Some v /\ v_dims v = ["y"; "x"] /\
    reproject_ds repaired ex_tol ex_itol ex_ds_table ex_dst None = Ok out' /\
    lookup "w" (x_vars out') = Some v' /\ v_dims v' = ["time"; "band"].
Proof.
  eexists _, _, _, _.
  split; [vm_compute; reflexivity|]. split; [reflexivity|]. split; [reflexivity|].
  split; [vm_compute; reflexivity|]. split; reflexivity.
Qed.
Print Assumptions C09_unrepaired_nonspatial_variable_warped_refuted.
