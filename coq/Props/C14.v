(** Property C14 — a GridSpec tiles the plane without gaps or overlaps.
    Only statements; each is closed by [exact] of a lemma of
    Proofs/GridSpecProofs.v.  Floats are exact rationals.  A grid [g] is any
    value returned by the model of [GridSpec.__init__], [gs_new ny nx ry rx ox
    oy flipx flipy = Ok g] (tile shape [ny,nx], resolution [ry,rx], origin
    [ox,oy]); [tile_x g ix] / [tile_y g iy] are the intervals [_xbin[ix]] /
    [_ybin[iy]] whose product is the footprint of tile [(ix,iy)].
    [tol] is the constant 1e-8 of [idx_bounds] (any rational). *)
From Coq Require Import ZArith QArith Qround Qabs List Bool.
From OG Require Import Base.Result Model.GridSpec Proofs.GridSpecProofs.
Import ListNotations.
Open Scope Q_scope.

(** ** Bin1D *)

(** construction succeeds exactly for positive sizes and directions +1/-1 *)
Theorem C14_bin_domain :
  forall sz origin dir,
    (exists b, bin_new sz origin dir = Ok b) <-> (0 < sz /\ (dir = 1%Z \/ dir = (-1)%Z)).
Proof. exact P_bin_domain. Qed.
Print Assumptions C14_bin_domain.

(** [bin x = i] exactly for the points of the half-open interval [i] *)
Theorem C14_bin_point_lookup :
  forall sz origin dir b x i, bin_new sz origin dir = Ok b ->
    (bin_bin b x = i <-> fst (bin_getitem b i) <= x /\ x < snd (bin_getitem b i)).
Proof. exact P_bin_lookup. Qed.
Print Assumptions C14_bin_point_lookup.

(** every interval has width [sz]; consecutive indices share an endpoint exactly *)
Theorem C14_bin_neighbours_share_endpoint :
  forall sz origin dir b i, bin_new sz origin dir = Ok b ->
    snd (bin_getitem b i) == fst (bin_getitem b i) + sz /\
    (dir = 1%Z -> snd (bin_getitem b i) == fst (bin_getitem b (i + 1))) /\
    (dir = (-1)%Z -> fst (bin_getitem b i) == snd (bin_getitem b (i + 1))).
Proof. exact P_bin_neighbours. Qed.
Print Assumptions C14_bin_neighbours_share_endpoint.

(** intervals of distinct indices have disjoint interiors *)
Theorem C14_bin_distinct_disjoint :
  forall sz origin dir b i j, bin_new sz origin dir = Ok b -> i <> j ->
    snd (bin_getitem b i) <= fst (bin_getitem b j) \/ snd (bin_getitem b j) <= fst (bin_getitem b i).
Proof. exact P_bin_disjoint. Qed.
Print Assumptions C14_bin_distinct_disjoint.

(** ** GridSpec *)

(** a grid can be built exactly for tile shapes >= 1 and non-zero resolutions
    (of either sign), for every origin and flip flags; otherwise AssertionError *)
Theorem C14_grid_domain :
  forall ny nx ry rx ox oy flipx flipy,
    (exists g, gs_new ny nx ry rx ox oy flipx flipy = Ok g) <->
    ((1 <= ny)%Z /\ (1 <= nx)%Z /\ ~ ry == 0 /\ ~ rx == 0).
Proof. exact gs_new_domain. Qed.
Print Assumptions C14_grid_domain.

Theorem C14_grid_domain_error :
  forall ny nx ry rx ox oy flipx flipy,
    ~ ((1 <= ny)%Z /\ (1 <= nx)%Z /\ ~ ry == 0 /\ ~ rx == 0) ->
    exists l, gs_new ny nx ry rx ox oy flipx flipy = Err (EAssert l).
Proof. exact gs_new_error. Qed.
Print Assumptions C14_grid_domain_error.

(** every point belongs to the tile that point lookup returns, and to no other *)
Theorem C14_point_lookup :
  forall ny nx ry rx ox oy flipx flipy g, gs_new ny nx ry rx ox oy flipx flipy = Ok g ->
  forall x y ix iy,
    pt2idx g x y = (ix, iy) <->
    (fst (tile_x g ix) <= x /\ x < snd (tile_x g ix)) /\
    (fst (tile_y g iy) <= y /\ y < snd (tile_y g iy)).
Proof. exact P_pt2idx. Qed.
Print Assumptions C14_point_lookup.

(** tiles with distinct indices have disjoint interiors (no point strictly inside both) ... *)
Theorem C14_distinct_tiles_disjoint_interiors :
  forall ny nx ry rx ox oy flipx flipy g, gs_new ny nx ry rx ox oy flipx flipy = Ok g ->
  forall ix iy jx jy x y, (ix, iy) <> (jx, jy) ->
    fst (tile_x g ix) < x < snd (tile_x g ix) -> fst (tile_y g iy) < y < snd (tile_y g iy) ->
    fst (tile_x g jx) < x < snd (tile_x g jx) -> fst (tile_y g jy) < y < snd (tile_y g jy) ->
    False.
Proof. exact P_interiors_disjoint. Qed.
Print Assumptions C14_distinct_tiles_disjoint_interiors.

(** ... because along an axis on which the indices differ one footprint ends
    where or before the other starts *)
Theorem C14_distinct_tiles_separated :
  forall ny nx ry rx ox oy flipx flipy g, gs_new ny nx ry rx ox oy flipx flipy = Ok g ->
  forall ix jx iy jy,
    (ix <> jx -> snd (tile_x g ix) <= fst (tile_x g jx) \/ snd (tile_x g jx) <= fst (tile_x g ix)) /\
    (iy <> jy -> snd (tile_y g iy) <= fst (tile_y g jy) \/ snd (tile_y g jy) <= fst (tile_y g iy)).
Proof. exact P_axis_separated. Qed.
Print Assumptions C14_distinct_tiles_separated.

(** footprints have the size shape*|resolution|; neighbours share their common
    edge exactly (the other axis' interval is the same term) *)
Theorem C14_neighbours_share_edge :
  forall ny nx ry rx ox oy flipx flipy g, gs_new ny nx ry rx ox oy flipx flipy = Ok g ->
  forall ix iy,
    snd (tile_x g ix) == fst (tile_x g ix) + inject_Z nx * Qabs rx /\
    snd (tile_y g iy) == fst (tile_y g iy) + inject_Z ny * Qabs ry /\
    (flipx = false -> snd (tile_x g ix) == fst (tile_x g (ix + 1))) /\
    (flipx = true -> fst (tile_x g ix) == snd (tile_x g (ix + 1))) /\
    (flipy = false -> snd (tile_y g iy) == fst (tile_y g (iy + 1))) /\
    (flipy = true -> fst (tile_y g iy) == snd (tile_y g (iy + 1))).
Proof. exact P_neighbours. Qed.
Print Assumptions C14_neighbours_share_edge.

(** the tile GeoBox has the specified shape and resolution and its bounding box
    (BoundingBox.from_transform) is the pair of intervals *)
Theorem C14_tile_geobox :
  forall ny nx ry rx ox oy flipx flipy g, gs_new ny nx ry rx ox oy flipx flipy = Ok g ->
  forall ix iy,
    let b := tile_geobox g (ix, iy) in
    gb_ny b = ny /\ gb_nx b = nx /\ gb_sx b = rx /\ gb_sy b = ry /\
    fst (fst (fst (gbox_bbox b))) == fst (tile_x g ix) /\
    snd (fst (fst (gbox_bbox b))) == fst (tile_y g iy) /\
    snd (fst (gbox_bbox b)) == snd (tile_x g ix) /\
    snd (gbox_bbox b) == snd (tile_y g iy).
Proof. exact P_tile_geobox. Qed.
Print Assumptions C14_tile_geobox.

(** bounding-box query, every query box: the returned indices are exactly those
    whose interval meets [x1+tol, x2-tol] (resp. [x2-tol, x1+tol] for boxes
    narrower than 2 tol) on both axes *)
Theorem C14_tiles_bbox_query :
  forall ny nx ry rx ox oy flipx flipy g, gs_new ny nx ry rx ox oy flipx flipy = Ok g ->
  forall tol x1 y1 x2 y2 ix iy,
    In (ix, iy) (tiles g tol (x1, y1, x2, y2)) <->
    ((x1 + tol <= x2 - tol /\ fst (tile_x g ix) <= x2 - tol /\ x1 + tol < snd (tile_x g ix)) \/
     (x2 - tol < x1 + tol /\ fst (tile_x g ix) <= x1 + tol /\ x2 - tol < snd (tile_x g ix))) /\
    ((y1 + tol <= y2 - tol /\ fst (tile_y g iy) <= y2 - tol /\ y1 + tol < snd (tile_y g iy)) \/
     (y2 - tol < y1 + tol /\ fst (tile_y g iy) <= y1 + tol /\ y2 - tol < snd (tile_y g iy))).
Proof. exact P_tiles. Qed.
Print Assumptions C14_tiles_bbox_query.

(** for query boxes at least 2 tol wide: exactly the tiles that reach into the
    box by more than tol from its lower edges and by at least tol from its upper
    edges — edge contacts within tol are excluded *)
Theorem C14_tiles_bbox_query_wide :
  forall ny nx ry rx ox oy flipx flipy g, gs_new ny nx ry rx ox oy flipx flipy = Ok g ->
  forall tol x1 y1 x2 y2 ix iy, x1 + tol <= x2 - tol -> y1 + tol <= y2 - tol ->
    (In (ix, iy) (tiles g tol (x1, y1, x2, y2)) <->
     (fst (tile_x g ix) <= x2 - tol /\ x1 + tol < snd (tile_x g ix)) /\
     (fst (tile_y g iy) <= y2 - tol /\ y1 + tol < snd (tile_y g iy))).
Proof. exact P_tiles_wide. Qed.
Print Assumptions C14_tiles_bbox_query_wide.

(** every tile overlapping the query by more than tol on both axes is returned *)
Theorem C14_tiles_overlap_included :
  forall ny nx ry rx ox oy flipx flipy g, gs_new ny nx ry rx ox oy flipx flipy = Ok g ->
  forall tol x1 y1 x2 y2 ix iy,
    tol < snd (tile_x g ix) - x1 -> tol < x2 - fst (tile_x g ix) ->
    tol < snd (tile_y g iy) - y1 -> tol < y2 - fst (tile_y g iy) ->
    In (ix, iy) (tiles g tol (x1, y1, x2, y2)).
Proof. exact P_tiles_overlap_included. Qed.
Print Assumptions C14_tiles_overlap_included.

(** no index is returned twice *)
Theorem C14_tiles_no_duplicates :
  forall g tol bounds, NoDup (tiles g tol bounds).
Proof. exact tiles_NoDup. Qed.
Print Assumptions C14_tiles_no_duplicates.

(** polygon query: exactly the bounding-box candidates whose footprint the oracle
    (shapely [disjoint] on the CRS-converted polygon) reports non-disjoint *)
Section PolygonOracles.
  Variable P : Type.                            (* query polygons, any CRS *)
  Variable bbox_of : P -> Q * Q * Q * Q.        (* bounding box after conversion to the grid CRS *)
  Variable disjoint : P -> gbox -> bool.        (* converted polygon vs. tile extent *)

  Theorem C14_tiles_polygon_query :
    forall g tol p idx,
      In idx (tiles_from_geopolygon bbox_of disjoint g tol p) <->
      In idx (tiles g tol (bbox_of p)) /\ disjoint p (tile_geobox g idx) = false.
  Proof. exact (P_polygon bbox_of disjoint). Qed.
End PolygonOracles.
Print Assumptions C14_tiles_polygon_query.

(** a grid rebuilt from any one of its tiles (footprint, index, shape, flip
    flags) has the same footprint for every index and the same point lookup *)
Theorem C14_from_sample_tile :
  forall ny nx ry rx ox oy flipx flipy g, gs_new ny nx ry rx ox oy flipx flipy = Ok g ->
  forall jx jy,
    exists g',
      from_sample_tile (fst (tile_x g jx), fst (tile_y g jy), snd (tile_x g jx), snd (tile_y g jy))
                       ny nx jx jy flipx flipy = Ok g' /\
      g_ny g' = ny /\ g_nx g' = nx /\
      (forall i, fst (tile_x g' i) == fst (tile_x g i) /\ snd (tile_x g' i) == snd (tile_x g i)) /\
      (forall i, fst (tile_y g' i) == fst (tile_y g i) /\ snd (tile_y g' i) == snd (tile_y g i)) /\
      (forall x y, pt2idx g' x y = pt2idx g x y).
Proof. exact P_from_sample_tile. Qed.
Print Assumptions C14_from_sample_tile.

(** web tiles at zoom z ([h] = pi*R, any positive constant): 2^z tiles of size
    2h/2^z per side; tile (i,j) spans x in [-h + i t, -h + (i+1) t] and
    y in [h - (j+1) t, h - j t] (slippy-map extents, row 0 at the top); every
    point of [-h,h) x [-h,h) is looked up to an index in 0..2^z-1 *)
Theorem C14_web_tiles :
  forall h z npix, 0 < h -> (0 <= z)%Z -> (1 <= npix)%Z ->
  exists g, web_tiles h z npix = Ok g /\ g_ny g = npix /\ g_nx g = npix /\
    let tsz := 2 * h / inject_Z (2 ^ z) in
    tsz * inject_Z (2 ^ z) == 2 * h /\
    (forall i, fst (tile_x g i) == - h + inject_Z i * tsz /\
               snd (tile_x g i) == - h + (inject_Z i + 1) * tsz) /\
    (forall j, fst (tile_y g j) == h - (inject_Z j + 1) * tsz /\
               snd (tile_y g j) == h - inject_Z j * tsz) /\
    (forall x y, - h <= x < h -> - h <= y < h ->
                 (0 <= fst (pt2idx g x y) < 2 ^ z)%Z /\ (0 <= snd (pt2idx g x y) < 2 ^ z)%Z).
Proof. exact P_web_tiles. Qed.
Print Assumptions C14_web_tiles.

(** ** non-vacuity: the hypotheses are satisfiable and the functions compute *)
Example C14_ex_grid :
  exists g, gs_new 4 5 (-(1#2)) (1#4) (3#1) (-(7#1)) true false = Ok g /\
            pt2idx g (3#1) (-(7#1)) = (0, 0)%Z /\
            pt2idx g (29#10) (-(71#10)) = (1, -1)%Z /\
            tiles g (1#100000000) (0, -(9#1), (17#4), -(5#1)) = [(0, -1); (1, -1); (2, -1); (3, -1); (0, 0); (1, 0); (2, 0); (3, 0)]%Z.
Proof. eexists. split; [reflexivity|]. vm_compute. repeat split; reflexivity. Qed.

Example C14_ex_web :
  exists g, web_tiles (20037508#1) 3 256 = Ok g /\ pt2idx g 0 0 = (4, 3)%Z /\
            pt2idx g (-(20037508#1)) (20037507#1) = (0, 0)%Z.
Proof. eexists. split; [reflexivity|]. vm_compute. split; reflexivity. Qed.

(** Tie to the source: Bin1D.__getitem__ / Bin1D.bin as regenerated by tools/py2v from the
    current odc/geo/math.py (coq/Gen/MathGen.v, rewritten on every run) are the Bin1D of
    the model (Model/GridSpec.v) the theorems above are stated on. *)
From OG Require Proofs.MathGenEquivG.
Theorem C14_source_is_model : OG.Proofs.MathGenEquivG.gridspec_source_is_model.
Proof. exact OG.Proofs.MathGenEquivG.gridspec_source_is_model_holds. Qed.
Print Assumptions C14_source_is_model.
