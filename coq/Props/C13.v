(** Property C13 — chunked (dask) reprojection equals whole-array reprojection.
    Only statements + [Print Assumptions].

    Vocabulary (Model/ChunkedWarp.v).  A raster is a list of planes (leading/time axes
    flattened), a plane a function row -> column -> value.  [st], [dtl] are the tilings
    (chunkings) of source and destination; [d2s] is the dependency map returned by
    [GeoboxTiles.grid_intersect] (absent key = []).  [dask_chunk ... j] is the value of
    destination chunk [j] of the graph built by [_dask_rio_reproject]: a constant
    [np.full] block when [d2s j = []], otherwise the task [_do_chunked_reproject]
    (clip the source tiling to the listed tiles, assemble their blocks with fill, crop the
    source GeoBox to that window, warp plane by plane into the chunk's GeoBox).
    [dask_pixel] reads the assembled array; [rio_reproject] is the in-memory path.

    ORACLES (Section variables in Proofs, universally quantified here):
    - [warp] = [_rio_reproject] (rasterio/GDAL) with the contract [warp_contract]:
      nearest-neighbour LOCALITY between two grids sharing a CRS — pixel [d] of the output
      takes [sample (src[nn d])] when [nn d] (an arbitrary function from destination to
      source base-grid pixels) lies inside the source window given to the warp and GDAL's
      initial value [gdal_init] otherwise; cropping a GeoBox re-bases pixel coordinates
      (C02) and the previous content of the output array is irrelevant.
    - the tilings meet [tiling_ok] (tile boundaries start at 0 and do not decrease: the C04
      partition theorem); proved below for every chunk-size list.
    - the dependency map meets [deps_in_range] and [deps_complete] (the C12 theorem: every
      source tile holding a pixel that a destination tile reads is listed for it).
    - dask evaluates each graph node to the value of its pure task, whatever the order
      (the model of a chunk is a function of the source blocks only). *)
From Coq Require Import ZArith List Bool Lia.
From OG Require Import Base.Result Base.Eqb Model.ChunkedWarp Model.ChunkedWarpCases Proofs.ChunkedWarpProofs.
Import ListNotations.
Open Scope Z_scope.

(** Fill decision table.  With [gdal_init] the value GDAL leaves in unwritten pixels, the
    repaired task chunks produce exactly [resolve_fill_value] (= the constant blocks) for
    EVERY destination nodata, source nodata and dtype ... *)
Theorem C13_fill_task_equals_constant :
  forall (dtype N V : Type) (is_float : dtype -> bool) (cast : dtype -> N -> V) (vnan vzero : dtype -> V) (nanN : N),
    (forall dt, is_float dt = true -> cast dt nanN = vnan dt) ->
    forall dn sn dt,
      gdal_init cast vzero (chunk_dst_nodata is_float nanN true dn sn dt) sn dt
      = resolve_fill_value is_float cast vnan vzero dn sn dt.
Proof. intros; apply chunk_fill_is_resolved; assumption. Qed.
Print Assumptions C13_fill_task_equals_constant.

(** ... and so does the in-memory path unless float data has a source nodata but no
    destination nodata (rio_reproject then prefers NaN).  [_xr_reproject_da] defaults the
    destination nodata from the source nodata, so the exception is unreachable there. *)
Theorem C13_fill_in_memory :
  forall (dtype N V : Type) (is_float : dtype -> bool) (cast : dtype -> N -> V) (vnan vzero : dtype -> V) (nanN : N),
    (forall dt, is_float dt = true -> cast dt nanN = vnan dt) ->
    forall dn sn dt, (dn <> None \/ sn = None \/ is_float dt = false) ->
      gdal_init cast vzero (rio_dst_nodata is_float nanN dn dt) sn dt
      = resolve_fill_value is_float cast vnan vzero dn sn dt.
Proof. intros; apply rio_fill_is_resolved; assumption. Qed.
Print Assumptions C13_fill_in_memory.

Theorem C13_xr_defaulting_excludes_exception :
  forall (dtype N : Type) (is_float : dtype -> bool) (dn kw attr : option N) (dt : dtype),
    snd (xr_nodata dn kw attr) <> None \/ fst (xr_nodata dn kw attr) = None \/ is_float dt = false.
Proof. intros; apply (xr_nodata_no_corner is_float). Qed.
Print Assumptions C13_xr_defaulting_excludes_exception.

(** Every chunking given by chunk-size lists is a partition: each coordinate inside the
    raster lies in exactly one tile, found by [locate]. *)
Theorem C13_chunk_lists_are_partitions :
  forall chy chx, (forall c, In c chy -> 0 <= c) -> (forall c, In c chx -> 0 <= c) ->
    tiling_ok (tiling_of chy chx).
Proof. exact tiling_of_ok. Qed.
Print Assumptions C13_chunk_lists_are_partitions.

Theorem C13_partition :
  forall n off, axis_ok n off -> forall y, 0 <= y < off n ->
    (0 <= locate off n y < n /\ off (locate off n y) <= y < off (locate off n y + 1)) /\
    (forall i, 0 <= i < n -> off i <= y < off (i + 1) -> i = locate off n y).
Proof.
  intros n off Hok y Hy. destruct (locate_spec n off y Hok Hy) as (R & L). split; [split; assumption|].
  intros i Hi Hiy. exact (axis_tile_unique n off i _ y Hok Hi R Hiy L).
Qed.
Print Assumptions C13_partition.

(** Main theorem, chunk by chunk: for every warp oracle meeting the locality contract, all
    tilings of source and destination, every dependency map that is in range and complete,
    any number of leading planes, every nodata/dtype combination outside the rio_reproject
    exception: each destination chunk — task or constant — evaluates without error to
    exactly the corresponding window of the in-memory result. *)
Theorem C13_chunk_equals_whole :
  forall (dtype N V : Type) (is_float : dtype -> bool) (cast : dtype -> N -> V) (vnan vzero : dtype -> V) (nanN : N),
    (forall dt, is_float dt = true -> cast dt nanN = vnan dt) ->
  forall (warp : @warp_t dtype N V) nn sample, warp_contract cast vzero warp nn sample ->
  forall st dtl, tiling_ok st -> tiling_ok dtl ->
  forall d2s, deps_in_range st d2s -> deps_complete nn st dtl d2s ->
  forall (src : list (plane V)) dn sn dt j,
    (dn <> None \/ sn = None \/ is_float dt = false) ->
    tile_in_range dtl j ->
    exists ps,
      dask_chunk is_float cast vnan vzero nanN warp true d2s st dtl src dn sn dt j = Ok ps /\
      length ps = length src /\
      forall k dflt y x, (k < length src)%nat ->
        0 <= y < vh (tile_view dtl j) -> 0 <= x < vw (tile_view dtl j) ->
        nth k ps dflt y x
        = nth k (rio_reproject is_float nanN warp st dtl src dn sn dt) dflt
              (y + offy dtl (fst j)) (x + offx dtl (snd j)).
Proof. intros; eapply chunk_equals_whole; eassumption. Qed.
Print Assumptions C13_chunk_equals_whole.

(** The assembled dask array equals the in-memory array at every plane and pixel. *)
Theorem C13_dask_equals_whole :
  forall (dtype N V : Type) (is_float : dtype -> bool) (cast : dtype -> N -> V) (vnan vzero : dtype -> V) (nanN : N),
    (forall dt, is_float dt = true -> cast dt nanN = vnan dt) ->
  forall (warp : @warp_t dtype N V) nn sample, warp_contract cast vzero warp nn sample ->
  forall st dtl, tiling_ok st -> tiling_ok dtl ->
  forall d2s, deps_in_range st d2s -> deps_complete nn st dtl d2s ->
  forall (src : list (plane V)) dn sn dt,
    (dn <> None \/ sn = None \/ is_float dt = false) ->
    forall k dflt y x, (k < length src)%nat ->
      0 <= y < offy dtl (nty dtl) -> 0 <= x < offx dtl (ntx dtl) ->
      dask_pixel is_float cast vnan vzero nanN warp true d2s st dtl src dn sn dt dflt k y x
      = Ok (nth k (rio_reproject is_float nanN warp st dtl src dn sn dt) dflt y x).
Proof. intros; eapply dask_equals_whole; eassumption. Qed.
Print Assumptions C13_dask_equals_whole.

(** The same at the level of [xr_reproject] (nodata defaulted from the keyword and the
    array attribute) and for chunkings given as arbitrary lists of chunk sizes: no
    restriction on nodata or dtype remains. *)
Theorem C13_xr_reproject_chunked_equals_whole :
  forall (dtype N V : Type) (is_float : dtype -> bool) (cast : dtype -> N -> V) (vnan vzero : dtype -> V) (nanN : N),
    (forall dt, is_float dt = true -> cast dt nanN = vnan dt) ->
  forall (warp : @warp_t dtype N V) nn sample, warp_contract cast vzero warp nn sample ->
  forall chy chx dchy dchx,
    (forall c, In c chy -> 0 <= c) -> (forall c, In c chx -> 0 <= c) ->
    (forall c, In c dchy -> 0 <= c) -> (forall c, In c dchx -> 0 <= c) ->
  let st := tiling_of chy chx in
  let dtl := tiling_of dchy dchx in
  forall d2s, deps_in_range st d2s -> deps_complete nn st dtl d2s ->
  forall (src : list (plane V)) dst_nodata kw_src_nodata attr_nodata dt,
  let sn := fst (xr_nodata dst_nodata kw_src_nodata attr_nodata) in
  let dn := snd (xr_nodata dst_nodata kw_src_nodata attr_nodata) in
    forall k dflt y x, (k < length src)%nat ->
      0 <= y < offy dtl (nty dtl) -> 0 <= x < offx dtl (ntx dtl) ->
      dask_pixel is_float cast vnan vzero nanN warp true d2s st dtl src dn sn dt dflt k y x
      = Ok (nth k (rio_reproject is_float nanN warp st dtl src dn sn dt) dflt y x).
Proof.
  intros. eapply dask_equals_whole; try eassumption; try (apply tiling_of_ok; assumption).
  apply (xr_nodata_no_corner is_float).
Qed.
Print Assumptions C13_xr_reproject_chunked_equals_whole.

(** Uniform fill: a destination pixel that no source pixel reaches ([nn] points outside
    the source) holds [resolve_fill_value dst_nodata src_nodata dtype] in a task chunk, and
    every pixel of a constant chunk holds it — for all nodata/dtype combinations and
    without assuming completeness of the dependency map. *)
Theorem C13_unreached_pixels_hold_fill :
  forall (dtype N V : Type) (is_float : dtype -> bool) (cast : dtype -> N -> V) (vnan vzero : dtype -> V) (nanN : N),
    (forall dt, is_float dt = true -> cast dt nanN = vnan dt) ->
  forall (warp : @warp_t dtype N V) nn sample, warp_contract cast vzero warp nn sample ->
  forall st dtl, tiling_ok st -> tiling_ok dtl ->
  forall d2s, deps_in_range st d2s ->
  forall (src : list (plane V)) dn sn dt j, tile_in_range dtl j ->
    exists ps,
      dask_chunk is_float cast vnan vzero nanN warp true d2s st dtl src dn sn dt j = Ok ps /\
      length ps = length src /\
      forall k dflt y x, (k < length src)%nat ->
        0 <= y < vh (tile_view dtl j) -> 0 <= x < vw (tile_view dtl j) ->
        (d2s j = [] \/ ~ in_source st (nn (y + offy dtl (fst j)) (x + offx dtl (snd j)))) ->
        nth k ps dflt y x = resolve_fill_value is_float cast vnan vzero dn sn dt.
Proof. intros; eapply chunk_unreached_is_fill; eassumption. Qed.
Print Assumptions C13_unreached_pixels_hold_fill.

Theorem C13_in_memory_unreached_pixels_hold_fill :
  forall (dtype N V : Type) (is_float : dtype -> bool) (cast : dtype -> N -> V) (vnan vzero : dtype -> V) (nanN : N),
    (forall dt, is_float dt = true -> cast dt nanN = vnan dt) ->
  forall (warp : @warp_t dtype N V) nn sample, warp_contract cast vzero warp nn sample ->
  forall st dtl (src : list (plane V)) dn sn dt k dflt y x,
    (dn <> None \/ sn = None \/ is_float dt = false) ->
    (k < length src)%nat -> 0 <= y < offy dtl (nty dtl) -> 0 <= x < offx dtl (ntx dtl) ->
    ~ in_source st (nn y x) ->
    nth k (rio_reproject is_float nanN warp st dtl src dn sn dt) dflt y x
    = resolve_fill_value is_float cast vnan vzero dn sn dt.
Proof. intros; eapply whole_unreached_is_fill; eassumption. Qed.
Print Assumptions C13_in_memory_unreached_pixels_hold_fill.

(** Rasters that do not overlap: the computed array is all fill and no chunk fails
    (whatever the dependency map lists, as long as it is in range). *)
Theorem C13_disjoint_gives_all_fill :
  forall (dtype N V : Type) (is_float : dtype -> bool) (cast : dtype -> N -> V) (vnan vzero : dtype -> V) (nanN : N),
    (forall dt, is_float dt = true -> cast dt nanN = vnan dt) ->
  forall (warp : @warp_t dtype N V) nn sample, warp_contract cast vzero warp nn sample ->
  forall st dtl, tiling_ok st -> tiling_ok dtl ->
  forall d2s, deps_in_range st d2s ->
  forall (src : list (plane V)) dn sn dt,
    (forall y x, 0 <= y < offy dtl (nty dtl) -> 0 <= x < offx dtl (ntx dtl) -> ~ in_source st (nn y x)) ->
    forall k dflt y x, (k < length src)%nat ->
      0 <= y < offy dtl (nty dtl) -> 0 <= x < offx dtl (ntx dtl) ->
      dask_pixel is_float cast vnan vzero nanN warp true d2s st dtl src dn sn dt dflt k y x
      = Ok (resolve_fill_value is_float cast vnan vzero dn sn dt).
Proof. intros; eapply disjoint_all_fill; eassumption. Qed.
Print Assumptions C13_disjoint_gives_all_fill.

(** Non-vacuity and the F10 refutation share one concrete instance (the one used by the
    correspondence: values are integers or NaN): a 1x1 float32 source holding 5, a 1x2
    destination in a single chunk whose second pixel is not reached, no nodata. *)
Definition ex_nn : list (list (Z * Z)) := [[(0, 0); (-1, -1)]].
Definition ex_d2s : idx -> list idx := lookup [((0, 0), [(0, 0)])].
Definition ex_st := tiling_of [1] [1].
Definition ex_dtl := tiling_of [1] [2].
Definition ex_src : list (plane val) := [tab_plane [[VNum 5]]].

Lemma ex_contract : warp_contract cast_c vzero_c (warp_c ex_nn) (tab_nn ex_nn) sample_c.
Proof. unfold warp_contract; intros; reflexivity. Qed.

Lemma ex_in_range : deps_in_range ex_st ex_d2s.
Proof.
  unfold deps_in_range, ex_d2s, lookup; intros j i. simpl.
  destruct (zz_eqb (0, 0) j); simpl; [|intros []].
  intros [<- | []]. unfold tile_in_range; simpl; lia.
Qed.

Lemma ex_complete : deps_complete (tab_nn ex_nn) ex_st ex_dtl ex_d2s.
Proof.
  unfold deps_complete. intros [jy jx] y x (Hjy & Hjx) (Hy & Hx) Hin. simpl in *.
  assert (jy = 0) by lia. assert (jx = 0) by lia. subst. simpl in *.
  assert (y = 0) by (unfold offs in *; simpl in *; lia). subst.
  unfold offs in Hx; simpl in Hx.
  assert (Hx' : x = 0 \/ x = 1) by lia. destruct Hx' as [-> | ->].
  - exists (0, 0). split; [left; reflexivity|]. unfold in_tile; simpl. unfold offs; simpl. lia.
  - exfalso. unfold in_source in Hin. simpl in Hin. lia.
Qed.

Example C13_hypotheses_satisfiable :
  tiling_ok ex_st /\ tiling_ok ex_dtl /\ deps_in_range ex_st ex_d2s /\
  deps_complete (tab_nn ex_nn) ex_st ex_dtl ex_d2s /\
  warp_contract cast_c vzero_c (warp_c ex_nn) (tab_nn ex_nn) sample_c /\
  dask_pixel dt_is_float cast_c vnan_c vzero_c VNaN (warp_c ex_nn) true ex_d2s ex_st ex_dtl ex_src None None DF32
             (fun _ _ => VNum 0) 0 0 0 = Ok (VNum 5) /\
  dask_pixel dt_is_float cast_c vnan_c vzero_c VNaN (warp_c ex_nn) true ex_d2s ex_st ex_dtl ex_src None None DF32
             (fun _ _ => VNum 0) 0 0 1 = Ok VNaN /\
  nth 0 (rio_reproject dt_is_float VNaN (warp_c ex_nn) ex_st ex_dtl ex_src None None DF32) (fun _ _ => VNum 0) 0 1 = VNaN.
Proof.
  split; [apply tiling_of_ok; simpl; intros c [<- | []]; lia|].
  split; [apply tiling_of_ok; simpl; intros c [<- | []]; lia|].
  split; [exact ex_in_range|]. split; [exact ex_complete|]. split; [exact ex_contract|].
  repeat split; vm_compute; reflexivity.
Qed.

(** F10: the code before the repair handed [dst_nodata = None] to the warp.  On the
    instance above — all hypotheses of the main theorem hold — the unreached pixel of
    the task chunk holds 0 while the in-memory result and [resolve_fill_value] say NaN. *)
Theorem C13_unrepaired_float_fill_refuted :
  exists (nn : list (list (Z * Z))) (d2s : idx -> list idx) (st dtl : tiling) (src : list (plane val)) y x,
    tiling_ok st /\ tiling_ok dtl /\ deps_in_range st d2s /\ deps_complete (tab_nn nn) st dtl d2s /\
    warp_contract cast_c vzero_c (warp_c nn) (tab_nn nn) sample_c /\
    0 <= y < offy dtl (nty dtl) /\ 0 <= x < offx dtl (ntx dtl) /\
    dask_pixel dt_is_float cast_c vnan_c vzero_c VNaN (warp_c nn) false d2s st dtl src None None DF32
               (fun _ _ => VNum 0) 0 y x = Ok (VNum 0) /\
    nth 0 (rio_reproject dt_is_float VNaN (warp_c nn) st dtl src None None DF32) (fun _ _ => VNum 0) y x = VNaN /\
    resolve_fill_value dt_is_float cast_c vnan_c vzero_c None None DF32 = VNaN.
Proof.
  exists ex_nn, ex_d2s, ex_st, ex_dtl, ex_src, 0, 1.
  split; [apply tiling_of_ok; simpl; intros c [<- | []]; lia|].
  split; [apply tiling_of_ok; simpl; intros c [<- | []]; lia|].
  split; [exact ex_in_range|]. split; [exact ex_complete|]. split; [exact ex_contract|].
  repeat split; try (vm_compute; congruence); vm_compute; reflexivity.
Qed.
Print Assumptions C13_unrepaired_float_fill_refuted.
