(** placeholder, replaced below *)
From OG Require Import Model.TileQuery Model.TileQueryCases.
