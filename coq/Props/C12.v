(** Property C12 — tile queries and tile dependency graphs are complete.
    Only statements; each is closed by [exact] of a lemma of
    Proofs/TileQueryProofs.v.  Floats are exact rationals.

    Vocabulary.  An [axis] is one dimension of a tiling: [AReg N n] (roi.Tiles,
    base size N, tile size n) or [AVar chunks] (roi.VariableSizedTiles).
    [ax_ok]: N >= 1 and n >= 1, resp. all chunks >= 0 with a positive total.
    [tiling_ok t NY NX]: both axes valid and the tiling covers a raster of shape
    (NY, NX).  [ax_range a k = Ok (lo, hi)]: tile [k] covers pixels lo..hi-1, i.e.
    the pixel-space interval [lo, hi].  [fmap s t x = s*x + t];
    [mlo s t x0 x1] / [mhi s t x0 x1] = min / max of the images of x0 and x1:
    the interval onto which an axis of a destination tile is mapped.
    [edge g d s]: the dictionary [g] lists source tile [s] for destination tile [d]. *)
From Coq Require Import ZArith QArith Qround Qabs List Bool Lia.
From OG Require Import Base.Result Base.QMinMax Base.ZRange Model.TileQuery Proofs.TileQueryProofs.
Import ListNotations.
Open Scope Z_scope.

(** ** locate *)

(** regular and variable tilings: [locate p] is the one tile whose pixel range
    contains [p]; IndexError exactly outside of the base *)
Theorem C12_locate :
  forall a p, ax_ok a ->
    (0 <= p < ax_base a ->
     exists k lo hi, ax_locate a p = Ok k /\ 0 <= k < ax_count a /\ ax_range a k = Ok (lo, hi) /\ lo <= p < hi /\
       forall k' lo' hi', 0 <= k' < ax_count a -> ax_range a k' = Ok (lo', hi') -> lo' <= p < hi' -> k' = k) /\
    (~ 0 <= p < ax_base a -> ax_locate a p = Err EIndex).
Proof. exact P_locate. Qed.
Print Assumptions C12_locate.

Theorem C12_locate_2d :
  forall t NY NX y x, tiling_ok t NY NX ->
    (0 <= y < NY /\ 0 <= x < NX ->
     exists iy ix, locate t y x = Ok (iy, ix) /\ ax_locate (t_y t) y = Ok iy /\ ax_locate (t_x t) x = Ok ix) /\
    (~ (0 <= y < NY /\ 0 <= x < NX) -> locate t y x = Err EIndex).
Proof. exact P_locate_2d. Qed.
Print Assumptions C12_locate_2d.

(** ** pixel-space bounding-box queries (range_from_bbox, tiles(BoundingBox without CRS)) *)

(** for every valid tiling and EVERY box (inside, straddling, outside, larger,
    degenerate, inverted) the query succeeds, returns valid tile indices, and
    contains every non-empty tile whose pixel rectangle meets the interior of the box *)
Theorem C12_pixel_box_query_complete :
  forall t NY NX bx1 by1 bx2 by2, tiling_ok t NY NX ->
  exists l, tiles_from_pix_bbox t NY NX (bx1, by1, bx2, by2) = Ok l /\
    (forall iy ix, In (iy, ix) l -> 0 <= iy < ax_count (t_y t) /\ 0 <= ix < ax_count (t_x t)) /\
    (forall iy ix ylo yhi xlo xhi,
        0 <= iy < ax_count (t_y t) -> 0 <= ix < ax_count (t_x t) ->
        ax_range (t_y t) iy = Ok (ylo, yhi) -> ax_range (t_x t) ix = Ok (xlo, xhi) ->
        ylo < yhi -> xlo < xhi ->
        (inject_Z xlo < bx2)%Q -> (bx1 < inject_Z xhi)%Q ->
        (inject_Z ylo < by2)%Q -> (by1 < inject_Z yhi)%Q ->
        In (iy, ix) l).
Proof. exact P_pix_query. Qed.
Print Assumptions C12_pixel_box_query_complete.

(** the same, with a witness point strictly inside both the box and the tile *)
Theorem C12_pixel_box_query_point :
  forall t NY NX bx1 by1 bx2 by2 l iy ix ylo yhi xlo xhi (u v : Q), tiling_ok t NY NX ->
    tiles_from_pix_bbox t NY NX (bx1, by1, bx2, by2) = Ok l ->
    0 <= iy < ax_count (t_y t) -> 0 <= ix < ax_count (t_x t) ->
    ax_range (t_y t) iy = Ok (ylo, yhi) -> ax_range (t_x t) ix = Ok (xlo, xhi) ->
    (bx1 < u < bx2)%Q -> (by1 < v < by2)%Q ->
    (inject_Z xlo < u < inject_Z xhi)%Q -> (inject_Z ylo < v < inject_Z yhi)%Q ->
    In (iy, ix) l.
Proof. exact P_pix_query_point. Qed.
Print Assumptions C12_pixel_box_query_point.

(** ** geometry queries.  Oracles: the pixel-space bounding box of the query
    (pyproj conversion, shapely bounds, GeoBox.project) and shapely [disjoint]. *)
Section GeometryOracles.
  Variable P : Type.
  Variable pix_bbox_of : P -> res q4.
  Variable disjoint : P -> Z * Z -> bool.

  (** exactly the range candidates that the oracle reports non-disjoint *)
  Theorem C12_geometry_query_exact :
    forall t NY NX q l, tiles_query pix_bbox_of disjoint t NY NX q = Ok l ->
    exists b cand, pix_bbox_of q = Ok b /\ tiles_from_pix_bbox t NY NX b = Ok cand /\
                   forall idx, In idx l <-> (In idx cand /\ disjoint q idx = false).
  Proof. exact (tiles_query_spec pix_bbox_of disjoint). Qed.

  (** and it fails only if the oracle does *)
  Theorem C12_geometry_query_total :
    forall t NY NX q b, tiling_ok t NY NX -> pix_bbox_of q = Ok b ->
    exists l, tiles_query pix_bbox_of disjoint t NY NX q = Ok l.
  Proof. exact (tiles_query_ok pix_bbox_of disjoint). Qed.
End GeometryOracles.
Print Assumptions C12_geometry_query_exact.
Print Assumptions C12_geometry_query_total.

(** ** linear dependency graph: for ALL scale+translation affines (mirrored,
    scaled, shifted by any amount), all regular/variable tilings of both rasters *)

(** never an error; exactly one entry per destination tile, in row-major order *)
Theorem C12_linear_total :
  forall dst src NYd NXd NYs NXs A, tiling_ok dst NYd NXd -> tiling_ok src NYs NXs ->
  exists g, grid_intersect_linear dst src NYs NXs A = Ok g /\ map fst g = all_tiles dst.
Proof. exact linear_graph_ok. Qed.
Print Assumptions C12_linear_total.

(** completeness: every non-empty source tile whose pixel rectangle overlaps the
    mapped destination tile with positive area is listed for it *)
Theorem C12_linear_complete :
  forall dst src NYd NXd NYs NXs A g dy dx sy sx dylo dyhi dxlo dxhi sylo syhi sxlo sxhi,
    tiling_ok dst NYd NXd -> tiling_ok src NYs NXs ->
    grid_intersect_linear dst src NYs NXs A = Ok g ->
    0 <= dy < ax_count (t_y dst) -> 0 <= dx < ax_count (t_x dst) ->
    0 <= sy < ax_count (t_y src) -> 0 <= sx < ax_count (t_x src) ->
    ax_range (t_y dst) dy = Ok (dylo, dyhi) -> ax_range (t_x dst) dx = Ok (dxlo, dxhi) ->
    ax_range (t_y src) sy = Ok (sylo, syhi) -> ax_range (t_x src) sx = Ok (sxlo, sxhi) ->
    sylo < syhi -> sxlo < sxhi ->
    (inject_Z sxlo < mhi (a_sx A) (a_tx A) dxlo dxhi)%Q -> (mlo (a_sx A) (a_tx A) dxlo dxhi < inject_Z sxhi)%Q ->
    (inject_Z sylo < mhi (a_sy A) (a_ty A) dylo dyhi)%Q -> (mlo (a_sy A) (a_ty A) dylo dyhi < inject_Z syhi)%Q ->
    edge g (dy, dx) (sy, sx).
Proof. exact P_linear_complete. Qed.
Print Assumptions C12_linear_complete.

(** point form: if some point of the destination tile is mapped strictly inside
    the source tile, the source tile is listed *)
Theorem C12_linear_complete_point :
  forall dst src NYd NXd NYs NXs A g dy dx sy sx dylo dyhi dxlo dxhi sylo syhi sxlo sxhi (u v : Q),
    tiling_ok dst NYd NXd -> tiling_ok src NYs NXs ->
    grid_intersect_linear dst src NYs NXs A = Ok g ->
    0 <= dy < ax_count (t_y dst) -> 0 <= dx < ax_count (t_x dst) ->
    0 <= sy < ax_count (t_y src) -> 0 <= sx < ax_count (t_x src) ->
    ax_range (t_y dst) dy = Ok (dylo, dyhi) -> ax_range (t_x dst) dx = Ok (dxlo, dxhi) ->
    ax_range (t_y src) sy = Ok (sylo, syhi) -> ax_range (t_x src) sx = Ok (sxlo, sxhi) ->
    (inject_Z dxlo <= u <= inject_Z dxhi)%Q -> (inject_Z dylo <= v <= inject_Z dyhi)%Q ->
    (inject_Z sxlo < a_sx A * u + a_tx A < inject_Z sxhi)%Q ->
    (inject_Z sylo < a_sy A * v + a_ty A < inject_Z syhi)%Q ->
    edge g (dy, dx) (sy, sx).
Proof. exact P_linear_complete_point. Qed.
Print Assumptions C12_linear_complete_point.

(** snapping tolerance: [A] is the affine actually used (snap_affine of the true
    pixel-to-pixel map [A0]); if the two maps differ by at most [delta] at the
    corners of the destination tile, every source tile that overlaps the TRUE
    image of the destination tile by more than [delta] on both axes is listed *)
Theorem C12_linear_complete_beyond_tolerance :
  forall dst src NYd NXd NYs NXs A A0 delta g dy dx sy sx dylo dyhi dxlo dxhi sylo syhi sxlo sxhi,
    tiling_ok dst NYd NXd -> tiling_ok src NYs NXs ->
    grid_intersect_linear dst src NYs NXs A = Ok g ->
    0 <= dy < ax_count (t_y dst) -> 0 <= dx < ax_count (t_x dst) ->
    0 <= sy < ax_count (t_y src) -> 0 <= sx < ax_count (t_x src) ->
    ax_range (t_y dst) dy = Ok (dylo, dyhi) -> ax_range (t_x dst) dx = Ok (dxlo, dxhi) ->
    ax_range (t_y src) sy = Ok (sylo, syhi) -> ax_range (t_x src) sx = Ok (sxlo, sxhi) ->
    sylo < syhi -> sxlo < sxhi ->
    (forall x, x = dxlo \/ x = dxhi -> Qabs (fmap (a_sx A) (a_tx A) x - fmap (a_sx A0) (a_tx A0) x) <= delta)%Q ->
    (forall y, y = dylo \/ y = dyhi -> Qabs (fmap (a_sy A) (a_ty A) y - fmap (a_sy A0) (a_ty A0) y) <= delta)%Q ->
    (inject_Z sxlo + delta < mhi (a_sx A0) (a_tx A0) dxlo dxhi)%Q -> (mlo (a_sx A0) (a_tx A0) dxlo dxhi + delta < inject_Z sxhi)%Q ->
    (inject_Z sylo + delta < mhi (a_sy A0) (a_ty A0) dylo dyhi)%Q -> (mlo (a_sy A0) (a_ty A0) dylo dyhi + delta < inject_Z syhi)%Q ->
    edge g (dy, dx) (sy, sx).
Proof. exact P_linear_tol. Qed.
Print Assumptions C12_linear_complete_beyond_tolerance.

(** rasters that do not overlap (the image of the destination raster has no
    common interior with the source raster: apart or merely touching, on either
    axis): no destination tile lists any source tile — and no error (C12_linear_total) *)
Theorem C12_linear_nonoverlap_empty :
  forall dst src NYd NXd NYs NXs A g,
    tiling_ok dst NYd NXd -> grid_intersect_linear dst src NYs NXs A = Ok g ->
    ((mhi (a_sx A) (a_tx A) 0 NXd <= 0)%Q \/ (inject_Z NXs <= mlo (a_sx A) (a_tx A) 0 NXd)%Q \/
     (mhi (a_sy A) (a_ty A) 0 NYd <= 0)%Q \/ (inject_Z NYs <= mlo (a_sy A) (a_ty A) 0 NYd)%Q) ->
    forall d l, In (d, l) g -> l = [].
Proof. exact linear_graph_nonoverlap. Qed.
Print Assumptions C12_linear_nonoverlap_empty.

(** no far-away tiles: every listed source tile is a valid tile within one pixel
    of the mapped destination tile (outward rounding) *)
Theorem C12_linear_listed_tiles_are_near :
  forall dst src NYd NXd NYs NXs A g dy dx sy sx l dylo dyhi dxlo dxhi,
    tiling_ok dst NYd NXd -> tiling_ok src NYs NXs ->
    grid_intersect_linear dst src NYs NXs A = Ok g -> In ((dy, dx), l) g -> In (sy, sx) l ->
    ax_range (t_y dst) dy = Ok (dylo, dyhi) -> ax_range (t_x dst) dx = Ok (dxlo, dxhi) ->
    0 <= dy < ax_count (t_y dst) /\ 0 <= dx < ax_count (t_x dst) /\
    0 <= sy < ax_count (t_y src) /\ 0 <= sx < ax_count (t_x src) /\
    exists sylo syhi sxlo sxhi,
      ax_range (t_y src) sy = Ok (sylo, syhi) /\ ax_range (t_x src) sx = Ok (sxlo, sxhi) /\
      (inject_Z sxlo < mhi (a_sx A) (a_tx A) dxlo dxhi + 1)%Q /\ (mlo (a_sx A) (a_tx A) dxlo dxhi - 1 < inject_Z sxhi)%Q /\
      (inject_Z sylo < mhi (a_sy A) (a_ty A) dylo dyhi + 1)%Q /\ (mlo (a_sy A) (a_ty A) dylo dyhi - 1 < inject_Z syhi)%Q.
Proof. exact P_linear_sound. Qed.
Print Assumptions C12_linear_listed_tiles_are_near.

(** F11 (repaired in the code): the loop body of the unrepaired
    _grid_intersect_linear lists edge tiles for rasters that do not overlap *)
Theorem C12_linear_unrepaired_refuted :
  exists dst src NYd NXd NYs NXs A g,
    tiling_ok dst NYd NXd /\ tiling_ok src NYs NXs /\
    (mhi (a_sx A) (a_tx A) 0 NXd <= 0)%Q /\
    grid_intersect_linear_prefix dst src NYs NXs A = Ok g /\
    edge g (0, 0) (0, 0).
Proof. exact F11_prefix_refuted. Qed.
Print Assumptions C12_linear_unrepaired_refuted.

(** ** general path (rotated grids, different CRS).  Oracles: the common footprint
    ([None] = empty), pixel bounding boxes and disjointness of the two geometry queries. *)
Section GeneralOracles.
  Variable P : Type.
  Variables (dst_bbox : P -> res q4) (dst_disjoint : P -> Z * Z -> bool).
  Variables (src_bbox : Z * Z -> res q4) (src_disjoint : Z * Z -> Z * Z -> bool).

  (** F14 (repaired in the code): no common footprint => empty graph, not an error *)
  Theorem C12_general_no_common_footprint :
    forall dst src NYd NXd NYs NXs,
      grid_intersect_general (@None P) dst_bbox dst_disjoint src_bbox src_disjoint dst src NYd NXd NYs NXs = Ok [].
  Proof. exact (general_none dst_bbox dst_disjoint src_bbox src_disjoint). Qed.

  (** an edge is exactly a pair (destination range candidate of the footprint,
      source range candidate of that destination tile's extent) that both
      oracles report non-disjoint *)
  Theorem C12_general_edges :
    forall dst src NYd NXd NYs NXs fp g,
      grid_intersect_general (Some fp) dst_bbox dst_disjoint src_bbox src_disjoint dst src NYd NXd NYs NXs = Ok g ->
      exists bd candd, dst_bbox fp = Ok bd /\ tiles_from_pix_bbox dst NYd NXd bd = Ok candd /\
        forall d s, edge g d s <->
          (In d candd /\ dst_disjoint fp d = false /\
           exists bs cands, src_bbox d = Ok bs /\ tiles_from_pix_bbox src NYs NXs bs = Ok cands /\
                            In s cands /\ src_disjoint d s = false).
  Proof. exact (general_edges dst_bbox dst_disjoint src_bbox src_disjoint). Qed.

  (** the general path fails only if an oracle fails *)
  Theorem C12_general_total :
    forall dst src NYd NXd NYs NXs fp,
      tiling_ok dst NYd NXd -> tiling_ok src NYs NXs ->
      (exists b, dst_bbox fp = Ok b) -> (forall d, exists b, src_bbox d = Ok b) ->
      exists g, grid_intersect_general (Some fp) dst_bbox dst_disjoint src_bbox src_disjoint
                                       dst src NYd NXd NYs NXs = Ok g.
  Proof. exact (general_ok dst_bbox dst_disjoint src_bbox src_disjoint). Qed.

  (** rasters the oracles report as not overlapping: no edges / empty graph *)
  Theorem C12_general_disjoint_no_edges :
    forall dst src NYd NXd NYs NXs fp g,
      grid_intersect_general (Some fp) dst_bbox dst_disjoint src_bbox src_disjoint dst src NYd NXd NYs NXs = Ok g ->
      ((forall d s, src_disjoint d s = true) -> forall d s, ~ edge g d s) /\
      ((forall d, dst_disjoint fp d = true) -> g = []).
  Proof.
    intros dst src NYd NXd NYs NXs fp g H. split.
    - exact (general_no_edges dst_bbox dst_disjoint src_bbox src_disjoint dst src NYd NXd NYs NXs fp g H).
    - exact (general_empty dst_bbox dst_disjoint src_bbox src_disjoint dst src NYd NXd NYs NXs fp g H).
  Qed.
End GeneralOracles.
Print Assumptions C12_general_no_common_footprint.
Print Assumptions C12_general_edges.
Print Assumptions C12_general_total.
Print Assumptions C12_general_disjoint_no_edges.

(** ** non-vacuity *)
Example C12_ex_tilings :
  tiling_ok (mkTiling (AReg 11 10) (AVar [9; 0; 9; 4])) 11 22 /\
  locate (mkTiling (AReg 11 10) (AVar [9; 0; 9; 4])) 10 18 = Ok (1, 3) /\
  tiles_from_pix_bbox (mkTiling (AReg 11 10) (AVar [9; 0; 9; 4])) 11 22 ((17 # 2), (19 # 2), (37 # 2), (23 # 2))%Q
  = Ok [(0, 0); (0, 1); (0, 2); (0, 3); (1, 0); (1, 1); (1, 2); (1, 3)].
Proof.
  split; [|split; reflexivity].
  repeat split; simpl; try lia. repeat constructor; lia.
Qed.

(** an overlapping, mirrored and scaled pair: dst 4x4 in 2x2 tiles, src 8x8 in 4x4 tiles,
    src_x = -2*dst_x + 8, src_y = 2*dst_y *)
Example C12_ex_linear :
  grid_intersect_linear (mkTiling (AReg 4 2) (AReg 4 2)) (mkTiling (AReg 8 4) (AReg 8 4)) 8 8
                        (mkST (-2 # 1) (8 # 1) (2 # 1) 0)
  = Ok [((0, 0), [(0, 1)]); ((0, 1), [(0, 0)]); ((1, 0), [(1, 1)]); ((1, 1), [(1, 0)])].
Proof. reflexivity. Qed.
