(** Property C02 — GeoBox views agree with its pixel-to-world mapping.

    Only statements, each closed by [exact] of a lemma from Proofs/, followed by
    [Print Assumptions].  A GeoBox is [(g_ny, g_nx, g_A, g_crs)] (Model/GeoBoxOps.v);
    [pix2wld g p = apply (g_A g) p], floats are exact rationals, the CRS an
    opaque tag.  All theorems hold for ARBITRARY affines (mirrored, sheared,
    rotated, non-square) unless a hypothesis says otherwise, and for all shapes.

    Vocabulary (Proofs/GeoBoxOpsProofs.v):
      in_rect g p    : p lies in the pixel rectangle [0,nx] x [0,ny]
      footprint g w  : w is the image of a point of the pixel rectangle
      covers g g'    : footprint g is contained in footprint g'
      invertible g   : det (g_A g) <> 0
      same_tags g g' : g' has the shape and the CRS of g
      hull4 c1..c4 w : w is a convex combination of c1..c4 *)
From Coq Require Import ZArith QArith Qround Qabs List Bool Lia.
From OG Require Import Base.Result Base.Eqb Base.ListSel Base.Affine Model.Roi Model.GeoBoxOps
  Model.GeoBoxOpsCases Proofs.RoiProofs Proofs.GeoBoxOpsProofs.
Import ListNotations.
Open Scope Q_scope.

(** ** (0) the affine group (Base/Affine.v): composition, inverse, action *)
Theorem C02_affine_group :
  forall A B C : affine,
    aeq (amul (amul A B) C) (amul A (amul B C)) /\
    aeq (amul aid A) A /\ aeq (amul A aid) A /\
    (~ adet A == 0 -> aeq (amul A (ainv A)) aid /\ aeq (amul (ainv A) A) aid) /\
    adet (amul A B) == adet A * adet B /\
    (forall p, peq (apply (amul A B) p) (apply A (apply B p))).
Proof.
  intros A B C. split; [apply amul_assoc|]. split; [apply amul_id_l|]. split; [apply amul_id_r|].
  split; [intros H; split; [apply amul_inv_r | apply amul_inv_l]; exact H|].
  split; [apply adet_mul | intros p; apply apply_mul].
Qed.
Print Assumptions C02_affine_group.

(** ** (i) pix2wld and wld2pix are mutual inverses *)
Theorem C02_pix2wld_wld2pix_inverse :
  forall g p, invertible g ->
    peq (wld2pix g (pix2wld g p)) p /\ peq (pix2wld g (wld2pix g p)) p.
Proof. exact roundtrip. Qed.
Print Assumptions C02_pix2wld_wld2pix_inverse.

(** ** (ii) footprint, bounding box, coordinates, resolution *)
(** the extent ring is the image of the rectangle's corners, in the code's order *)
Theorem C02_extent_is_image_of_corners :
  forall g, extent g =
    [pix2wld g (0, 0); pix2wld g (0, Zq (g_ny g)); pix2wld g (Zq (g_nx g), Zq (g_ny g));
     pix2wld g (Zq (g_nx g), 0); pix2wld g (0, 0)].
Proof. exact extent_corners. Qed.
Print Assumptions C02_extent_is_image_of_corners.

(** ... and the polygon they span (their convex hull) is exactly the image of the pixel rectangle *)
Theorem C02_footprint_is_hull_of_extent :
  forall g w, (1 <= g_nx g)%Z -> (1 <= g_ny g)%Z ->
    (footprint g w <->
     hull4 (pix2wld g (0, 0)) (pix2wld g (0, Zq (g_ny g))) (pix2wld g (Zq (g_nx g), Zq (g_ny g)))
           (pix2wld g (Zq (g_nx g), 0)) w).
Proof.
  intros g w Hx Hy; split; [apply footprint_in_hull; assumption | apply hull_in_footprint; lia].
Qed.
Print Assumptions C02_footprint_is_hull_of_extent.

(** bounding box = coordinate-wise min/max over ALL FOUR corner images (each side attained) *)
Theorem C02_boundingbox_minmax_of_four_corners :
  forall g l b r t, boundingbox g = (l, b, r, t) ->
    (forall c, In c (corner_images g) -> l <= fst c /\ fst c <= r /\ b <= snd c /\ snd c <= t) /\
    (exists c, In c (corner_images g) /\ l = fst c) /\
    (exists c, In c (corner_images g) /\ b = snd c) /\
    (exists c, In c (corner_images g) /\ r = fst c) /\
    (exists c, In c (corner_images g) /\ t = snd c).
Proof. exact boundingbox_minmax. Qed.
Print Assumptions C02_boundingbox_minmax_of_four_corners.

(** ... hence it contains the image of every point of the pixel rectangle *)
Theorem C02_boundingbox_contains_footprint :
  forall g l b r t p, boundingbox g = (l, b, r, t) -> in_rect g p ->
    l <= fst (pix2wld g p) /\ fst (pix2wld g p) <= r /\ b <= snd (pix2wld g p) /\ snd (pix2wld g p) <= t.
Proof. exact boundingbox_contains. Qed.
Print Assumptions C02_boundingbox_contains_footprint.

(** coordinate label i is the world coordinate of the centre of pixel i *)
Theorem C02_coordinates_are_pixel_centres :
  forall c g, 0 < tol_st c -> axis_aligned g ->
    exists xs ys, coordinates c g = Ok (xs, ys) /\
      length xs = Z.to_nat (g_nx g) /\ length ys = Z.to_nat (g_ny g) /\
      (forall i y, (0 <= i < g_nx g)%Z ->
         nth (Z.to_nat i) xs 0 == fst (pix2wld g (Zq i + (1 # 2), y))) /\
      (forall j x, (0 <= j < g_ny g)%Z ->
         nth (Z.to_nat j) ys 0 == snd (pix2wld g (x, Zq j + (1 # 2)))).
Proof. exact coordinates_labels. Qed.
Print Assumptions C02_coordinates_are_pixel_centres.

Theorem C02_coordinates_rejects_rotated :
  forall c g, is_affine_st c (g_A g) = false -> coordinates c g = Err EValue.
Proof. exact coordinates_not_aligned. Qed.
Print Assumptions C02_coordinates_rejects_rotated.

(** resolution of an axis aligned grid is the world step of one pixel *)
Theorem C02_resolution_axis_aligned :
  forall c g, 0 < tol_st c -> axis_aligned g ->
    resolution c g = Ok (aa (g_A g), ae (g_A g)) /\
    (forall x y, peq (pix2wld g (x + 1, y)) (fst (pix2wld g (x, y)) + aa (g_A g), snd (pix2wld g (x, y)))) /\
    (forall x y, peq (pix2wld g (x, y + 1)) (fst (pix2wld g (x, y)), snd (pix2wld g (x, y)) + ae (g_A g))).
Proof. exact resolution_axis_aligned. Qed.
Print Assumptions C02_resolution_axis_aligned.

(** rotated / sheared grids, square root as a universally quantified variable:
    rx = |pixel x-step|, rx*ry = signed pixel area, sign(ry) = sign(det), and for
    orthogonal columns |ry| = |pixel y-step| *)
Theorem C02_resolution_rotated_root :
  forall A l, 0 < l -> l * l == aa A * aa A + ad A * ad A ->
    let '(rx, ry) := resolution_with_root A l in
    rx * rx == aa A * aa A + ad A * ad A /\ 0 < rx /\
    rx * ry == adet A /\
    (0 < ry <-> 0 < adet A) /\ (ry == 0 <-> adet A == 0) /\
    (aa A * ab A + ad A * ae A == 0 -> ry * ry == ab A * ab A + ae A * ae A).
Proof. exact resolution_root_spec. Qed.
Print Assumptions C02_resolution_rotated_root.

(** the executable model (exact square roots: all Pythagorean rotations) *)
Theorem C02_resolution_rotated_exact :
  forall c g rx ry, is_affine_st c (g_A g) = false -> resolution c g = Ok (rx, ry) ->
    rx * rx == aa (g_A g) * aa (g_A g) + ad (g_A g) * ad (g_A g) /\ 0 < rx /\
    rx * ry == adet (g_A g) /\ (0 < ry <-> 0 < adet (g_A g)) /\
    (aa (g_A g) * ab (g_A g) + ad (g_A g) * ae (g_A g) == 0 ->
       ry * ry == ab (g_A g) * ab (g_A g) + ae (g_A g) * ae (g_A g)).
Proof. exact resolution_rotated. Qed.
Print Assumptions C02_resolution_rotated_exact.

(** ** (iii) one contract per view operation: new pixel p lies at old pixel g(p) *)

(** indexing with a pair (rows, columns) of int / slice indices *)
Theorem C02_getitem_contract :
  forall g sy sx g', getitem g (RTup [sy; sx]) = Ok g' ->
    let '(y0, y1, _) := norm_bounds sy (g_ny g) in
    let '(x0, x1, _) := norm_bounds sx (g_nx g) in
    g_ny g' = (y1 - y0)%Z /\ g_nx g' = (x1 - x0)%Z /\ g_crs g' = g_crs g /\
    forall p, peq (pix2wld g' p) (pix2wld g (fst p + Zq x0, snd p + Zq y0)).
Proof. exact getitem_tup_contract. Qed.
Print Assumptions C02_getitem_contract.

(** a single int / slice indexes rows and keeps all columns; more than 2 indices is a ValueError *)
Theorem C02_getitem_forms :
  forall g,
    (forall i, getitem g (RInt i) = getitem g (RTup [SInt i; full_slice])) /\
    (forall a b st, getitem g (ROne a b st) = getitem g (RTup [SSl a b st; full_slice])) /\
    (forall l, (2 < Z.of_nat (length l))%Z -> getitem g (RTup l) = Err EValue).
Proof.
  intros g. split; [intros; apply getitem_int_is_tuple|].
  split; [intros; apply getitem_slice_is_tuple | apply getitem_bad_rank].
Qed.
Print Assumptions C02_getitem_forms.

(** [start, stop) used above are the elements numpy selects on that axis (C17 semantics), for
    every array Y on that axis; the view's size is their number when the slice is in range *)
Theorem C02_getitem_matches_array_indexing :
  forall (A : Type) (Y : list A),
    (forall a b st, step_supported st = true ->
       let '(s, e, _) := norm_bounds (SSl a b st) (len Y) in
       (0 <= s)%Z /\ (0 <= e)%Z /\ np_get Y (SSl a b st) = Some (sel Y s e) /\
       ((s <= e)%Z -> (e <= len Y)%Z -> len (sel Y s e) = (e - s)%Z)) /\
    (forall i, (- len Y <= i < len Y)%Z ->
       norm_bounds (SInt i) (len Y) = ((i mod len Y)%Z, (i mod len Y + 1)%Z, None) /\
       np_get Y (SInt i) = Some (sel Y (i mod len Y) (i mod len Y + 1)) /\
       len (sel Y (i mod len Y) (i mod len Y + 1)) = 1%Z).
Proof.
  intros A Y. split.
  - intros a b st H. exact (norm_bounds_selection Y a b st H).
  - intros i H. split; [apply norm_bounds_int; exact H | apply norm_bounds_int_selection; exact H].
Qed.
Print Assumptions C02_getitem_matches_array_indexing.

(** every valid int index, negative ones included (F18): one row, at row [i mod ny] *)
Theorem C02_getitem_int_index :
  forall g i, (0 <= g_nx g)%Z -> (- g_ny g <= i < g_ny g)%Z ->
    exists g', getitem g (RInt i) = Ok g' /\
      g_ny g' = 1%Z /\ g_nx g' = g_nx g /\ g_crs g' = g_crs g /\
      forall p, peq (pix2wld g' p) (pix2wld g (fst p, snd p + Zq (i mod g_ny g))).
Proof. exact getitem_int_contract. Qed.
Print Assumptions C02_getitem_int_index.

(** the code before the F18 repair (int i -> slice(i, i+1)) violated this: negative height *)
Theorem C02_F18_before_fix_refuted :
  exists g i g', (- g_ny g <= i < g_ny g)%Z /\ getitem_int_before_fix g i = Ok g' /\ (g_ny g' < 0)%Z.
Proof. exact F18_before_fix_refuted. Qed.
Print Assumptions C02_F18_before_fix_refuted.

Theorem C02_center_pixel :
  forall g, (1 <= g_ny g)%Z -> (1 <= g_nx g)%Z ->
    exists g', center_pixel g = Ok g' /\
      g_ny g' = 1%Z /\ g_nx g' = 1%Z /\ g_crs g' = g_crs g /\
      (forall p, peq (pix2wld g' p) (pix2wld g (fst p + Zq (g_nx g / 2), snd p + Zq (g_ny g / 2)))) /\
      Zq (g_nx g / 2) <= Zq (g_nx g) * (1 # 2) <= Zq (g_nx g / 2) + 1 /\
      Zq (g_ny g / 2) <= Zq (g_ny g) * (1 # 2) <= Zq (g_ny g / 2) + 1.
Proof. exact center_pixel_contract. Qed.
Print Assumptions C02_center_pixel.

(** pixel-side ([gbox * T]) and world-side ([T * gbox]) composition *)
Theorem C02_mul_rmul :
  forall g T p,
    peq (pix2wld (gmul g T) p) (pix2wld g (apply T p)) /\ same_tags g (gmul g T) /\
    peq (pix2wld (grmul T g) p) (apply T (pix2wld g p)) /\ same_tags g (grmul T g).
Proof.
  intros g T p. destruct (gmul_contract g T p). destruct (grmul_contract T g p). tauto.
Qed.
Print Assumptions C02_mul_rmul.

Theorem C02_translate_pix :
  forall g tx ty p,
    peq (pix2wld (translate_pix g tx ty) p) (pix2wld g (fst p + tx, snd p + ty)) /\
    same_tags g (translate_pix g tx ty).
Proof. exact translate_pix_contract. Qed.
Print Assumptions C02_translate_pix.

Theorem C02_pad :
  forall g padx pady p,
    let py := fill pady padx in
    let g' := pad g padx pady in
    peq (pix2wld g' p) (pix2wld g (fst p - Zq padx, snd p - Zq py)) /\
    g_ny g' = (g_ny g + py * 2)%Z /\ g_nx g' = (g_nx g + padx * 2)%Z /\ g_crs g' = g_crs g.
Proof. exact pad_contract. Qed.
Print Assumptions C02_pad.

Theorem C02_pad_covers :
  forall g padx pady, (0 <= padx)%Z -> (0 <= fill pady padx)%Z -> covers g (pad g padx pady).
Proof. exact pad_covers. Qed.
Print Assumptions C02_pad_covers.

Theorem C02_pad_wh :
  forall g ax ay, (1 <= ax)%Z -> (1 <= fill ay ax)%Z ->
    let g' := pad_wh g ax ay in
    g_A g' = g_A g /\ g_crs g' = g_crs g /\
    (g_nx g <= g_nx g' < g_nx g + ax)%Z /\ (g_nx g' mod ax = 0)%Z /\
    (g_ny g <= g_ny g' < g_ny g + fill ay ax)%Z /\ (g_ny g' mod (fill ay ax) = 0)%Z /\
    covers g g'.
Proof. exact pad_wh_contract. Qed.
Print Assumptions C02_pad_wh.

Theorem C02_crop_expand :
  forall g ny nx,
    let g' := crop g ny nx in
    g_A g' = g_A g /\ g_ny g' = ny /\ g_nx g' = nx /\ g_crs g' = g_crs g /\
    (forall p, pix2wld g' p = pix2wld g p).
Proof. exact crop_contract. Qed.
Print Assumptions C02_crop_expand.

Theorem C02_flips :
  forall g p,
    peq (pix2wld (flipx g) p) (pix2wld g (Zq (g_nx g) - fst p, snd p)) /\ same_tags g (flipx g) /\
    peq (pix2wld (flipy g) p) (pix2wld g (fst p, Zq (g_ny g) - snd p)) /\ same_tags g (flipy g) /\
    covers g (flipx g) /\ covers (flipx g) g /\ covers g (flipy g) /\ covers (flipy g) g /\
    aeq (g_A (flipx (flipx g))) (g_A g) /\ aeq (g_A (flipy (flipy g))) (g_A g).
Proof.
  intros g p. destruct (flipx_contract g p). destruct (flipy_contract g p).
  destruct (flipx_same_footprint g). destruct (flipy_same_footprint g).
  pose proof (flipx_involutive g). pose proof (flipy_involutive g). tauto.
Qed.
Print Assumptions C02_flips.

Theorem C02_neighbours :
  forall g p,
    peq (pix2wld (gleft g) p) (pix2wld g (fst p - Zq (g_nx g), snd p)) /\
    peq (pix2wld (gright g) p) (pix2wld g (fst p + Zq (g_nx g), snd p)) /\
    peq (pix2wld (gtop g) p) (pix2wld g (fst p, snd p - Zq (g_ny g))) /\
    peq (pix2wld (gbottom g) p) (pix2wld g (fst p, snd p + Zq (g_ny g))) /\
    same_tags g (gleft g) /\ same_tags g (gright g) /\ same_tags g (gtop g) /\ same_tags g (gbottom g).
Proof. exact neighbours_contract. Qed.
Print Assumptions C02_neighbours.

Theorem C02_neighbours_share_an_edge :
  forall g t,
    peq (pix2wld (gleft g) (Zq (g_nx g), t)) (pix2wld g (0, t)) /\
    peq (pix2wld (gright g) (0, t)) (pix2wld g (Zq (g_nx g), t)) /\
    peq (pix2wld (gtop g) (t, Zq (g_ny g))) (pix2wld g (t, 0)) /\
    peq (pix2wld (gbottom g) (t, 0)) (pix2wld g (t, Zq (g_ny g))) /\
    aeq (g_A (gright (gleft g))) (g_A g) /\ aeq (g_A (gbottom (gtop g))) (g_A g).
Proof. exact neighbours_adjacent. Qed.
Print Assumptions C02_neighbours_share_an_edge.

(** rotation about the centre, for ANY pair (c, s): the centre stays, displacements from it are
    multiplied by the matrix [[c, -s], [s, c]] *)
Theorem C02_rotate :
  forall g c s p,
    let C := center_world g in
    let g' := rotate g c s in
    peq (pix2wld g' p)
        (fst C + (c * (fst (pix2wld g p) - fst C) - s * (snd (pix2wld g p) - snd C)),
         snd C + (s * (fst (pix2wld g p) - fst C) + c * (snd (pix2wld g p) - snd C))) /\
    peq (pix2wld g' (Zq (g_nx g) * (1 # 2), Zq (g_ny g) * (1 # 2))) C /\
    same_tags g g' /\
    adet (g_A g') == (c * c + s * s) * adet (g_A g).
Proof. exact rotate_contract. Qed.
Print Assumptions C02_rotate.

(** ... and for a genuine rotation (c^2 + s^2 = 1, e.g. every cos/sin pair) it is an isometry *)
Theorem C02_rotate_isometry :
  forall g c s p q, c * c + s * s == 1 ->
    dist2 (pix2wld (rotate g c s) p) (pix2wld (rotate g c s) q) == dist2 (pix2wld g p) (pix2wld g q).
Proof. exact rotate_isometry. Qed.
Print Assumptions C02_rotate_isometry.

Theorem C02_zoom_out :
  forall g f, 0 < f ->
    exists g', zoom_out g f = Ok g' /\
      g_ny g' = zoom_dim (g_ny g) f /\ g_nx g' = zoom_dim (g_nx g) f /\ g_crs g' = g_crs g /\
      (forall p, peq (pix2wld g' p) (pix2wld g (f * fst p, f * snd p))) /\
      covers g g'.
Proof. exact zoom_out_contract. Qed.
Print Assumptions C02_zoom_out.

(** the zoomed size is the smallest integer >= n/f (at least 1) *)
Theorem C02_zoom_out_size :
  forall n f, 0 < f ->
    (1 <= zoom_dim n f)%Z /\ Zq n / f <= Zq (zoom_dim n f) /\
    (Zq (zoom_dim n f) < Zq n / f + 1 \/ zoom_dim n f = 1%Z).
Proof. exact zoom_dim_spec. Qed.
Print Assumptions C02_zoom_out_size.

Theorem C02_zoom_to_shape :
  forall g ny nx, (1 <= ny)%Z -> (1 <= nx)%Z ->
    exists g', zoom_to_shape g ny nx = Ok g' /\
      g_ny g' = ny /\ g_nx g' = nx /\ g_crs g' = g_crs g /\
      (forall p, peq (pix2wld g' p)
                     (pix2wld g (fst p * (Zq (g_nx g) / Zq nx), snd p * (Zq (g_ny g) / Zq ny)))) /\
      peq (pix2wld g' (Zq nx, Zq ny)) (pix2wld g (Zq (g_nx g), Zq (g_ny g))) /\
      ((0 <= g_ny g)%Z -> (0 <= g_nx g)%Z -> covers g' g) /\
      ((1 <= g_ny g)%Z -> (1 <= g_nx g)%Z -> covers g g').
Proof. exact zoom_to_shape_contract. Qed.
Print Assumptions C02_zoom_to_shape.

(** zoom_to(k): the longest side becomes k pixels *)
Theorem C02_zoom_to_number :
  forall g k, (1 <= k)%Z -> (1 <= Z.max (g_ny g) (g_nx g))%Z ->
    let f := Zq (Z.max (g_ny g) (g_nx g)) / Zq k in
    0 < f /\ zoom_to_n g (Zq k) = zoom_out g f /\
    exists g', zoom_to_n g (Zq k) = Ok g' /\ Z.max (g_ny g') (g_nx g') = k.
Proof. exact zoom_to_n_contract. Qed.
Print Assumptions C02_zoom_to_number.

(** zoom_to(resolution=(rx, ry)): axis aligned grid with exactly that resolution, anchored at the
    bounding box edge and reaching the opposite edge up to the snapping tolerance (in pixels) *)
Theorem C02_zoom_to_resolution :
  forall c g rx ry g' l b r t,
    0 <= tol_snap c -> boundingbox g = (l, b, r, t) -> zoom_to_res c g rx ry = Ok g' ->
    g_crs g' = g_crs g /\ (1 <= g_nx g')%Z /\ (1 <= g_ny g')%Z /\
    aa (g_A g') == rx /\ ab (g_A g') == 0 /\ ad (g_A g') == 0 /\ ae (g_A g') == ry /\
    ~ rx == 0 /\ ~ ry == 0 /\
    (forall y, (0 < rx -> fst (pix2wld g' (0, y)) == l /\
                           r - tol_snap c * rx <= fst (pix2wld g' (Zq (g_nx g'), y))) /\
               (rx < 0 -> fst (pix2wld g' (0, y)) == r /\
                           fst (pix2wld g' (Zq (g_nx g'), y)) <= l + tol_snap c * (- rx))) /\
    (forall x, (0 < ry -> snd (pix2wld g' (x, 0)) == b /\
                           t - tol_snap c * ry <= snd (pix2wld g' (x, Zq (g_ny g')))) /\
               (ry < 0 -> snd (pix2wld g' (x, 0)) == t /\
                           snd (pix2wld g' (x, Zq (g_ny g'))) <= b + tol_snap c * (- ry))).
Proof. exact zoom_to_res_contract. Qed.
Print Assumptions C02_zoom_to_resolution.

Theorem C02_scaled_down_geobox :
  forall g s, (1 < s)%Z ->
    exists g', scaled_down_geobox g s = Ok g' /\
      g_ny g' = scaled_dim (g_ny g) s /\ g_nx g' = scaled_dim (g_nx g) s /\ g_crs g' = g_crs g /\
      (forall p, peq (pix2wld g' p) (pix2wld g (Zq s * fst p, Zq s * snd p))) /\
      ((0 <= g_ny g)%Z -> (0 <= g_nx g)%Z -> covers g g').
Proof. exact scaled_down_contract. Qed.
Print Assumptions C02_scaled_down_geobox.

Theorem C02_scaled_down_size :
  forall n s, (1 < s)%Z -> (0 <= n)%Z ->
    (n <= s * scaled_dim n s < n + s)%Z /\ (0 <= scaled_dim n s)%Z.
Proof. exact scaled_dim_spec. Qed.
Print Assumptions C02_scaled_down_size.

(** buffered: bx, by pixels are added on every side, bx the smallest integer with
    bx*|rx| >= xbuff - 0.1*|rx|; covering for non-negative buffers *)
Theorem C02_buffered :
  forall c g xb yb g', buffered c g xb yb = Ok g' ->
    let ybv := match yb with None => xb | Some v => v end in
    exists rx ry, resolution c g = Ok (rx, ry) /\ ~ rx == 0 /\ ~ ry == 0 /\
      let bx := round_to_res c xb rx in
      let by_ := round_to_res c ybv ry in
      g_ny g' = (g_ny g + 2 * by_)%Z /\ g_nx g' = (g_nx g + 2 * bx)%Z /\ g_crs g' = g_crs g /\
      (forall p, peq (pix2wld g' p) (pix2wld g (fst p - Zq bx, snd p - Zq by_))) /\
      xb - tenth c * Qabs rx <= Zq bx * Qabs rx /\ (Zq bx - 1) * Qabs rx < xb - tenth c * Qabs rx /\
      ybv - tenth c * Qabs ry <= Zq by_ * Qabs ry /\ (Zq by_ - 1) * Qabs ry < ybv - tenth c * Qabs ry /\
      (0 <= xb -> 0 <= ybv -> tenth c < 1 -> covers g g').
Proof. exact buffered_contract. Qed.
Print Assumptions C02_buffered.

(** ** (iv) GCP based geoboxes: the polynomial fit p2w / w2p is an oracle (any function
    respecting equality of points); their views compose it with the crop / zoom affine *)
Theorem C02_gcp_contracts_transfer :
  forall (p2w : pt -> pt), (forall p q, peq p q -> peq (p2w p) (p2w q)) ->
  forall g g' (gm : pt -> pt),
    (forall p, peq (pix2wld g' p) (pix2wld g (gm p))) ->
    forall p, peq (gcp_pix2wld p2w g' p) (gcp_pix2wld p2w g (gm p)).
Proof. exact gcp_transfer. Qed.
Print Assumptions C02_gcp_contracts_transfer.

Theorem C02_gcp_getitem_pad_zoom :
  forall (p2w : pt -> pt), (forall p q, peq p q -> peq (p2w p) (p2w q)) ->
    (forall g sy sx g', getitem g (RTup [sy; sx]) = Ok g' ->
       let '(y0, y1, _) := norm_bounds sy (g_ny g) in
       let '(x0, x1, _) := norm_bounds sx (g_nx g) in
       g_ny g' = (y1 - y0)%Z /\ g_nx g' = (x1 - x0)%Z /\ g_crs g' = g_crs g /\
       forall p, peq (gcp_pix2wld p2w g' p) (gcp_pix2wld p2w g (fst p + Zq x0, snd p + Zq y0))) /\
    (forall g padx pady p,
       peq (gcp_pix2wld p2w (pad g padx pady) p)
           (gcp_pix2wld p2w g (fst p - Zq padx, snd p - Zq (fill pady padx)))) /\
    (forall g f g', 0 < f -> zoom_out g f = Ok g' ->
       forall p, peq (gcp_pix2wld p2w g' p) (gcp_pix2wld p2w g (f * fst p, f * snd p))).
Proof.
  intros p2w H. split; [exact (gcp_getitem p2w H)|]. split; [exact (gcp_pad p2w H) | exact (gcp_zoom_out p2w H)].
Qed.
Print Assumptions C02_gcp_getitem_pad_zoom.

Theorem C02_gcp_roundtrip :
  forall (p2w w2p : pt -> pt) g p, invertible g -> (forall q, peq (w2p (p2w q)) q) ->
    peq (gcp_wld2pix w2p g (gcp_pix2wld p2w g p)) p.
Proof. exact gcp_roundtrip. Qed.
Print Assumptions C02_gcp_roundtrip.

(** exact when the control points are affinely related (the fit is the affine map M) *)
Theorem C02_gcp_affine_exact :
  forall (p2w : pt -> pt) g M p, (forall q, peq (p2w q) (apply M q)) ->
    peq (gcp_pix2wld p2w g p) (pix2wld (gcp_approx M g) p) /\
    g_ny (gcp_approx M g) = g_ny g /\ g_nx (gcp_approx M g) = g_nx g /\ g_crs (gcp_approx M g) = g_crs g.
Proof. exact gcp_affine_exact. Qed.
Print Assumptions C02_gcp_affine_exact.

(** ** Non-vacuity: concrete instances (evaluated, not assumed) *)
Definition ex_rot : geobox := mkG 10 20 (mkA 3 (-4) 100 4 3 (-50)) 2.   (* 3-4-5 rotation, scale 5 *)
Definition ex_cfg : cfg := mkCfg (1 # 10000000000) (1 # 10) (1 # 100).

Example C02_ex_invertible : invertible ex_rot.
Proof. unfold invertible, ex_rot, adet; simpl. intros H. discriminate H. Qed.

Example C02_ex_bbox : boundingbox ex_rot = (60, -50, 160, 60).
Proof. vm_compute. reflexivity. Qed.

Example C02_ex_resolution : res_eqb (pair_eqb Qeqb Qeqb) (resolution ex_cfg ex_rot) (Ok (5, 5)) = true.
Proof. vm_compute. reflexivity. Qed.

Example C02_ex_last_row :
  res_eqb gb_eqb (getitem ex_rot (RInt (-1))) (Ok (mkG 1 20 (mkA 3 (-4) 64 4 3 (-23)) 2)) = true.
Proof. vm_compute. reflexivity. Qed.

Example C02_ex_slices :
  res_eqb gb_eqb (getitem ex_rot (RTup [SSl (Some (-3)%Z) None None; SSl (Some 2%Z) (Some (-2)%Z) (Some 1%Z)]))
                 (Ok (mkG 3 16 (mkA 3 (-4) 78 4 3 (-21)) 2)) = true.
Proof. vm_compute. reflexivity. Qed.

Example C02_ex_zoom_out : exists g', zoom_out ex_rot (3 # 2) = Ok g' /\ g_ny g' = 7%Z /\ g_nx g' = 14%Z.
Proof. eexists; split; [vm_compute; reflexivity | split; reflexivity]. Qed.

Example C02_ex_buffered :
  exists g', buffered ex_cfg ex_rot 12 None = Ok g' /\ g_ny g' = 16%Z /\ g_nx g' = 26%Z.
Proof. eexists; split; [vm_compute; reflexivity | split; reflexivity]. Qed.

Example C02_ex_zoom_to_res :
  exists g', zoom_to_res ex_cfg ex_rot 10 (-10) = Ok g' /\ g_ny g' = 11%Z /\ g_nx g' = 10%Z.
Proof. eexists; split; [vm_compute; reflexivity | split; reflexivity]. Qed.
