(** Property C18 — part writers: the S3 multi-part upload is initiated exactly
    once under every interleaving; the file sink honours its contract; limits.

    Only statements.  [l_reach new_id true progs s] : [s] is reachable by SOME
    interleaving (any sequence of enabled thread choices) of the threads whose
    programs (lists of [writer(part, data)] / [writer.finalise(parts)] calls) are
    [progs] -- any number of threads, any program lengths -- in the model of the
    current process-local path of [DelayedS3Writer._ensure_init] including the lock registry of
    [_mpu_local_lock] ([reg0]: whether the lock was registered before; [dict.setdefault] is atomic,
    CPython oracle contract); [c_reach] the
    same for the cluster path, a thread being (worker, program).  [new_id k] is
    the UploadId S3 returns for the (k+1)-th initiation (an oracle; assumed
    non-empty).  [progs_ok]: every [finalise] is given at least one part (else
    it raises at once, _s3.py:311). *)
From Coq Require Import ZArith List Bool Lia.
From OG Require Import Base.Result Base.Threads Model.S3Init Model.FileSink
  Proofs.S3InitProofs Proofs.FileSinkProofs.
Import ListNotations.
Open Scope Z_scope.

(* ---------------------------------------------------------------- process-local path *)

Theorem C18_local_at_most_one_create :
  forall new_id : nat -> Z, (forall k, new_id k <> 0) ->
  forall reg0 progs s, progs_ok progs -> l_reach new_id true reg0 progs s -> (l_creates (fst s) <= 1)%nat.
Proof. exact local_at_most_one_create. Qed.
Print Assumptions C18_local_at_most_one_create.

(** no writer call fails because another thread won the race (nor for any other reason) *)
Theorem C18_local_no_thread_fails :
  forall new_id : nat -> Z, (forall k, new_id k <> 0) ->
  forall reg0 progs s, progs_ok progs -> l_reach new_id true reg0 progs s ->
  forall t th, nth_error (snd s) t = Some th -> l_failed th = false.
Proof. exact local_no_thread_fails. Qed.
Print Assumptions C18_local_no_thread_fails.

(** every call the client has received -- create, upload_part, complete -- carries
    the one id, and the create that issued it is in the log *)
Theorem C18_local_calls_under_one_id :
  forall new_id : nat -> Z, (forall k, new_id k <> 0) ->
  forall reg0 progs s, progs_ok progs -> l_reach new_id true reg0 progs s ->
  count_creates (l_log (fst s)) = l_creates (fst s) /\
  forall c, In c (l_log (fst s)) ->
    call_id c = new_id 0%nat /\ In (KCreate (new_id 0%nat)) (l_log (fst s)).
Proof. exact local_calls_under_one_id. Qed.
Print Assumptions C18_local_calls_under_one_id.

(** when every thread has finished: one upload_part per write ([k = true]), one
    complete per finalise ([k = false]), and exactly one initiation if anything was asked *)
Theorem C18_local_finished_run :
  forall new_id : nat -> Z, (forall k, new_id k <> 0) ->
  forall reg0 progs s, progs_ok progs -> l_reach new_id true reg0 progs s -> l_all_done s ->
  (forall k, count_calls k (l_log (fst s)) = count_ops k (concat progs)) /\
  (concat progs <> [] -> l_creates (fst s) = 1%nat).
Proof. exact local_finished_run. Qed.
Print Assumptions C18_local_finished_run.

(** while a thread is unfinished some thread can take a step *)
Theorem C18_local_no_deadlock :
  forall new_id : nat -> Z, (forall k, new_id k <> 0) ->
  forall reg0 progs s, progs_ok progs -> l_reach new_id true reg0 progs s ->
  forall t th, nth_error (snd s) t = Some th -> l_finished th = false ->
  exists t' lb s', l_step new_id true s t' = Some (lb, s').
Proof. exact local_no_deadlock. Qed.
Print Assumptions C18_local_no_deadlock.

(** the executable schedule runner used by the correspondence stays inside [l_reach] *)
Theorem C18_local_schedules_are_reachable :
  forall (new_id : nat -> Z) reg0 progs sched lbs s,
    l_run new_id true (l_init reg0 progs) sched = Some (lbs, s) -> l_reach new_id true reg0 progs s.
Proof. exact local_schedules_reach. Qed.
Print Assumptions C18_local_schedules_are_reachable.

(** the code before fix a4a8a1e (no re-check under the lock) violates the statement *)
Theorem C18_local_without_recheck_refuted :
  exists progs sched lbs s,
    progs_ok progs /\
    l_run std_id false (l_init true progs) sched = Some (lbs, s) /\
    exists t th, nth_error (snd s) t = Some th /\ l_pc th = LpErr (EAssert 111).
Proof. exact l_old_code_loser_fails. Qed.
Print Assumptions C18_local_without_recheck_refuted.

(** non-vacuity: a complete racing run of two first writes *)
Example C18_local_example :
  exists lbs s, l_run std_id true (l_init true race_progs) race_sched_fixed = Some (lbs, s) /\
    l_all_done s /\ rev (l_log (fst s)) = [KCreate 1; KUpload 1 1; KUpload 2 1].
Proof. exact l_race_example. Qed.

(** non-vacuity for the very first use of the process-local lock ([reg0 = false]): both threads
    find the registry empty, each creates a lock, the atomic [setdefault] keeps one *)
Example C18_local_fresh_registry_example :
  exists lbs s, l_run std_id true (l_init false race_progs) race_sched_fresh = Some (lbs, s) /\
    l_all_done s /\ l_reg (fst s) = true /\ rev (l_log (fst s)) = [KCreate 1; KUpload 1 1; KUpload 2 1].
Proof. exact l_fresh_registry_example. Qed.

(* ---------------------------------------------------------------- cluster path *)
(** all statements hold as long as the shared variable has not been deleted by a
    completed [finalise] ([c_deleted] is monotone), see [C18_cluster_late_first_write] *)

Theorem C18_cluster_at_most_one_create :
  forall new_id : nat -> Z, (forall k, new_id k <> 0) ->
  forall progs s, cprogs_ok progs -> c_reach new_id progs s -> c_deleted (fst s) = false ->
  (c_creates (fst s) <= 1)%nat.
Proof. exact cluster_at_most_one_create. Qed.
Print Assumptions C18_cluster_at_most_one_create.

Theorem C18_cluster_no_thread_fails :
  forall new_id : nat -> Z, (forall k, new_id k <> 0) ->
  forall progs s, cprogs_ok progs -> c_reach new_id progs s -> c_deleted (fst s) = false ->
  forall t th, nth_error (snd s) t = Some th -> c_failed th = false.
Proof. exact cluster_no_thread_fails. Qed.
Print Assumptions C18_cluster_no_thread_fails.

(** ... and every worker's copy of the upload id is empty or THE id *)
Theorem C18_cluster_calls_under_one_id :
  forall new_id : nat -> Z, (forall k, new_id k <> 0) ->
  forall progs s, cprogs_ok progs -> c_reach new_id progs s -> c_deleted (fst s) = false ->
  count_creates (c_log (fst s)) = c_creates (fst s) /\
  (forall c, In c (c_log (fst s)) ->
    call_id c = new_id 0%nat /\ In (KCreate (new_id 0%nat)) (c_log (fst s))) /\
  (forall w, c_uids (fst s) w = 0 \/ c_uids (fst s) w = new_id 0%nat).
Proof. exact cluster_calls_under_one_id. Qed.
Print Assumptions C18_cluster_calls_under_one_id.

Theorem C18_cluster_finished_run :
  forall new_id : nat -> Z, (forall k, new_id k <> 0) ->
  forall progs s, cprogs_ok progs -> c_reach new_id progs s -> c_deleted (fst s) = false ->
  c_all_done s ->
  (forall k, count_calls k (c_log (fst s)) = count_ops k (concat (map snd progs))) /\
  (concat (map snd progs) <> [] -> c_creates (fst s) = 1%nat).
Proof. exact cluster_finished_run. Qed.
Print Assumptions C18_cluster_finished_run.

Theorem C18_cluster_no_deadlock :
  forall new_id : nat -> Z, (forall k, new_id k <> 0) ->
  forall progs s, cprogs_ok progs -> c_reach new_id progs s -> c_deleted (fst s) = false ->
  forall t th, nth_error (snd s) t = Some th -> c_finished th = false ->
  exists t' lb s', c_step new_id s t' = Some (lb, s').
Proof. exact cluster_no_deadlock. Qed.
Print Assumptions C18_cluster_no_deadlock.

Theorem C18_cluster_schedules_are_reachable :
  forall (new_id : nat -> Z) progs sched lbs s,
    c_run new_id (c_init progs) sched = Some (lbs, s) -> c_reach new_id progs s.
Proof. exact cluster_schedules_reach. Qed.
Print Assumptions C18_cluster_schedules_are_reachable.

(** domain restriction made explicit: a first write that starts after a
    finalise has cleaned up initiates a second upload *)
Theorem C18_cluster_late_first_write :
  exists lbs s, c_run std_id (c_init late_progs) late_sched = Some (lbs, s) /\
    c_deleted (fst s) = true /\ c_creates (fst s) = 2%nat.
Proof. exact c_late_write_after_cleanup. Qed.
Print Assumptions C18_cluster_late_first_write.

(** the shared variable survives between uploads to the same (bucket, key): whatever an earlier,
    abandoned upload left in it, [prep_client] resets it and the new upload starts from [c_init],
    so all the statements above apply to it ... *)
Theorem C18_cluster_new_upload_ignores_stale_variable :
  forall v0 progs, c_init_after v0 progs = c_init progs.
Proof. exact c_init_after_is_init. Qed.
Print Assumptions C18_cluster_new_upload_ignores_stale_variable.

(** ... whereas a [prep_client] that only binds the variable lets the new upload's workers pick
    the stale id: no initiation, the part uploaded under the abandoned upload's id *)
Theorem C18_cluster_prep_without_reset_refuted :
  exists lbs s, c_run std_id (c_init_var (c_prep_client_noreset (Some 7)) [(0%nat, [OWrite 1])])
                      (repeat 0%nat 6) = Some (lbs, s) /\
    c_all_done s /\ c_creates (fst s) = 0%nat /\ c_log (fst s) = [KUpload 1 7].
Proof. exact c_stale_variable_without_reset. Qed.
Print Assumptions C18_cluster_prep_without_reset_refuted.

Example C18_cluster_example :
  exists lbs s, c_run std_id (c_init c_example_progs) c_example_sched = Some (lbs, s) /\
    c_deleted (fst s) = false /\ c_all_done s /\ c_creates (fst s) = 1%nat.
Proof. exact c_example. Qed.

(* ---------------------------------------------------------------- file sink *)

(** parts written (possibly rewritten) in any order, then [finalise] with the
    part list in ANY order [ps]: the destination is the concatenation in that
    order, no part file and no parts directory remain *)
Theorem C18_sink_writes_then_finalise :
  forall ws ps, ps <> [] -> NoDup ps -> (forall p, In p ps <-> In p (map fst ws)) ->
  sink_finalise false false (sink_writes ws) ps
  = Ok (mkFS (Some (concat (map (last_write ws) ps))) false []).
Proof. exact sink_roundtrip. Qed.
Print Assumptions C18_sink_writes_then_finalise.

(** from any state of the directory: if [finalise] returns, that is its result *)
Theorem C18_sink_finalise_result :
  forall f ps f', sink_finalise false false f ps = Ok f' ->
  f' = mkFS (Some (concat (map (get_nil (f_parts f)) ps))) false [].
Proof. exact sink_finalise_result. Qed.
Print Assumptions C18_sink_finalise_result.

Theorem C18_sink_finalise_succeeds :
  forall f ps, ps <> [] -> NoDup ps -> f_dir f = true ->
  (forall p, In p ps <-> In p (map fst (f_parts f))) ->
  sink_finalise false false f ps = Ok (finalised f ps).
Proof. exact sink_finalise_ok. Qed.
Print Assumptions C18_sink_finalise_succeeds.

(** error cases, so that the totalised model cannot make the above true vacuously *)
Theorem C18_sink_finalise_errors :
  (forall f, sink_finalise false false f [] = Err (EAssert 71)) /\
  (forall f ps p, In p ps -> ~ In p (map fst (f_parts f)) -> exists e, sink_finalise false false f ps = Err e) /\
  (forall f ps p, In p (map fst (f_parts f)) -> ~ In p ps -> exists e, sink_finalise false false f ps = Err e).
Proof. exact (conj sink_finalise_empty (conj sink_finalise_missing sink_finalise_leftover)). Qed.
Print Assumptions C18_sink_finalise_errors.

(** the code before the fix of this round: an empty part after the first broke finalise *)
Theorem C18_sink_empty_part_old_refuted :
  exists ws ps, ps <> [] /\ NoDup ps /\ (forall p, In p ps <-> In p (map fst ws)) /\
    sink_finalise true false (sink_writes ws) ps = Err EValue.
Proof. exact sink_old_empty_part_refuted. Qed.
Print Assumptions C18_sink_empty_part_old_refuted.

Example C18_sink_example :
  sink_finalise false false (sink_writes [(2, [98]); (1, [97; 97]); (3, []); (2, [99])]) [3; 2; 1]
  = Ok (mkFS (Some [99; 97; 97]) false []).
Proof. reflexivity. Qed.

(* ---------------------------------------------------------------- limits *)

Theorem C18_fs_limits_configured :
  forall l a b c d, NoDup (map fst l) ->
  configured l LkMinWrite 4096 a -> configured l LkMaxWrite (5 * 2 ^ 30) b ->
  configured l LkMinPart 1 c -> configured l LkMaxPart 10000 d ->
  fs_min_write_sz l = a /\ fs_max_write_sz l = b /\ fs_min_part l = c /\ fs_max_part l = d.
Proof. exact fs_limits_configured. Qed.
Print Assumptions C18_fs_limits_configured.

Theorem C18_fs_limits_max_above_min :
  forall l a b c d, NoDup (map fst l) ->
  configured l LkMinWrite 4096 a -> configured l LkMaxWrite (5 * 2 ^ 30) b ->
  configured l LkMinPart 1 c -> configured l LkMaxPart 10000 d ->
  (a < b -> fs_min_write_sz l < fs_max_write_sz l) /\ (c < d -> fs_min_part l < fs_max_part l).
Proof. exact fs_limits_max_above_min. Qed.
Print Assumptions C18_fs_limits_max_above_min.

Theorem C18_fs_limits_defaults :
  fs_min_write_sz [] = 4096 /\ fs_max_write_sz [] = 5 * 2 ^ 30 /\ fs_min_part [] = 1 /\ fs_max_part [] = 10000 /\
  fs_min_write_sz [] < fs_max_write_sz [] /\ fs_min_part [] < fs_max_part [].
Proof. exact fs_limits_defaults. Qed.
Print Assumptions C18_fs_limits_defaults.

Theorem C18_s3_limits :
  s3_min_write_sz = 5242880 /\ s3_max_write_sz = 5368709120 /\ s3_min_part = 1 /\ s3_max_part = 10000 /\
  s3_min_write_sz < s3_max_write_sz /\ s3_min_part < s3_max_part.
Proof. exact s3_limits. Qed.
Print Assumptions C18_s3_limits.

(** the accessors before fix 6596c49 *)
Theorem C18_fs_limits_old_refuted :
  exists l a b c d, NoDup (map fst l) /\
    configured l LkMinWrite 4096 a /\ configured l LkMaxWrite (5 * 2 ^ 30) b /\
    configured l LkMinPart 1 c /\ configured l LkMaxPart 10000 d /\ a < b /\ c < d /\
    fs_max_write_sz_old l <> b /\ ~ (fs_min_write_sz l < fs_max_write_sz_old l) /\
    fs_max_part_old l <> d /\ ~ (fs_min_part l < fs_max_part_old l).
Proof. exact fs_limits_old_refuted. Qed.
Print Assumptions C18_fs_limits_old_refuted.
