(** Property C06 — multi-part assembly preserves the byte stream under any schedule.
    Only statements (closed by [exact]) + [Print Assumptions].

    [mpu_write fx pw wpc spill hdr has_footer footer t] is the model of
    [mpu_write(chunks, write, mk_header=, mk_footer=, writes_per_chunk=, spill_sz=).compute()]
    executed along the merge tree [t] (any bracketing of adjacent partitions: dask's
    [fold(split_every=k)] over each bag and the left fold of [collate_substreams] are
    instances); it returns the list handed to [write.finalise], the log of all writer
    calls and the (size, id) list shown to the header/footer callbacks.  Bytes [A] and
    chunk ids [CI] are arbitrary types. *)
From Coq Require Import ZArith List Bool Lia Permutation Sorted.
From OG Require Import Base.Result Base.ListSel Model.Mpu Proofs.MpuProofs.
Import ListNotations.
Open Scope Z_scope.

(** Full statement, for the repaired code ([fixed]): for every merge tree with at least
    one chunk per partition, every chunk content, spill size, writes-per-chunk,
    header/footer and writer limits providing enough part numbers, the write succeeds
    and
    - the finalised parts concatenated are header ++ chunks ++ footer,
    - their part numbers are strictly increasing along the list, within [minp, maxp],
    - the finalise list is a permutation of the writer calls,
    - every part but the last is at least [minw] long,
    - the callbacks saw the complete ordered (size, id) list. *)
Theorem C06_mpu_write_correct :
  forall (A CI : Type) (pw : writer), 0 <= minw pw ->
  forall wpc spill (hdr : list A) has_footer footer (t : tree A CI),
    1 <= wpc -> 0 <= spill -> tree_ok t ->
    minp pw + nleaves t * wpc <= maxp pw ->
    exists fp log,
      mpu_write fixed pw wpc spill hdr has_footer footer t = Ok (fp, log, obs_of (tree_chunks t)) /\
      concat (map snd fp) = hdr ++ bytes_of (tree_chunks t) ++ (if has_footer then footer else []) /\
      incr_from (minp pw) (map fst fp) (maxp pw + 1) /\
      Permutation fp log /\
      Forall (fun p => minw pw <= len (snd p)) (removelast fp) /\
      fp <> [].
Proof. exact @mpu_write_correct. Qed.
Print Assumptions C06_mpu_write_correct.

(** [incr_from lo ids hi] means: strictly increasing and every id in [lo, hi). *)
Theorem C06_incr_from_meaning :
  forall lo ids hi, incr_from lo ids hi ->
    StronglySorted Z.lt ids /\ Forall (fun x => lo <= x < hi) ids.
Proof. intros lo ids hi H; split; [exact (incr_from_sorted _ _ _ H) | exact (incr_from_range _ _ _ H)]. Qed.
Print Assumptions C06_incr_from_meaning.

(** The assembled bytes do not depend on how the stream was partitioned and bracketed:
    any two schedules over the same chunk stream produce the same file. *)
Theorem C06_schedule_independent :
  forall (A CI : Type) (pw : writer), 0 <= minw pw ->
  forall wpc1 spill1 wpc2 spill2 (hdr : list A) has_footer footer (t1 t2 : tree A CI),
    1 <= wpc1 -> 0 <= spill1 -> tree_ok t1 -> minp pw + nleaves t1 * wpc1 <= maxp pw ->
    1 <= wpc2 -> 0 <= spill2 -> tree_ok t2 -> minp pw + nleaves t2 * wpc2 <= maxp pw ->
    bytes_of (tree_chunks t1) = bytes_of (tree_chunks t2) ->
    exists fp1 log1 o1 fp2 log2 o2,
      mpu_write fixed pw wpc1 spill1 hdr has_footer footer t1 = Ok (fp1, log1, o1) /\
      mpu_write fixed pw wpc2 spill2 hdr has_footer footer t2 = Ok (fp2, log2, o2) /\
      concat (map snd fp1) = concat (map snd fp2).
Proof.
  intros A CI pw Hm wpc1 spill1 wpc2 spill2 hdr hf footer t1 t2 H1 H2 H3 H4 H5 H6 H7 H8 Hb.
  destruct (@mpu_write_correct A CI pw Hm wpc1 spill1 hdr hf footer t1 H1 H2 H3 H4) as (fp1 & l1 & E1 & C1 & _).
  destruct (@mpu_write_correct A CI pw Hm wpc2 spill2 hdr hf footer t2 H5 H6 H7 H8) as (fp2 & l2 & E2 & C2 & _).
  eexists fp1, l1, _, fp2, l2, _. split; [exact E1|]. split; [exact E2|].
  unfold pbytes in *. rewrite C1, C2, Hb. reflexivity.
Qed.
Print Assumptions C06_schedule_independent.

(** Non-vacuity: a concrete three-partition schedule with header, spill in the middle
    and a two-chunk final partition meets the hypotheses and evaluates as stated. *)
Definition ex_w := {| minw := 4; minp := 1; maxp := 10 |}.
Definition ex_t : tree Z Z :=
  Node (Leaf [([1;2;3;4;5;6;7;8;9;10;11;12;13;14;15;16;17;18;19;20], Some 0)])
       (Node (Leaf [([21;22;23;24;25;26;27;28;29;30], Some 1)])
             (Leaf [([31;32;33;34;35;36;37;38;39;40;41;42], Some 2); ([43;44;45], Some 3)])).
Example C06_example :
  tree_ok ex_t /\ minp ex_w + nleaves ex_t * 1 <= maxp ex_w /\
  mpu_write fixed ex_w 1 8 [100;101] false [] ex_t =
  Ok ([(1, [100; 101; 1; 2; 3; 4]);
       (2, [5; 6; 7; 8; 9; 10; 11; 12; 13; 14; 15; 16; 17; 18; 19; 20; 21; 22; 23; 24]);
       (3, [25; 26; 27; 28; 29; 30; 31; 32; 33; 34; 35; 36; 37; 38; 39; 40; 41; 42; 43; 44; 45])],
      [(3, [25; 26; 27; 28; 29; 30; 31; 32; 33; 34; 35; 36; 37; 38; 39; 40; 41; 42; 43; 44; 45]);
       (2, [5; 6; 7; 8; 9; 10; 11; 12; 13; 14; 15; 16; 17; 18; 19; 20; 21; 22; 23; 24]);
       (1, [100; 101; 1; 2; 3; 4])],
      [(20, Some 0); (10, Some 1); (12, Some 2); (3, Some 3)]).
Proof. repeat split; try (simpl; congruence); try (vm_compute; congruence); vm_compute; reflexivity. Qed.

(** The code at the pinned commit violated the statement in three independent ways; each
    is refuted with a witness evaluated by [vm_compute] (the witnesses are replayed on the
    implementation from corpus/C06/ by the check, where they now pass). *)

(* F2: a final partition holding two chunks with a spill in between ran out of write
   credits: AssertionError at [assert can_flush(write)] *)
Theorem C06_unrepaired_final_partition_refuted :
  exists (pw : writer) wpc spill (t : tree Z Z),
    0 <= minw pw /\ 1 <= wpc /\ 0 <= spill /\ tree_ok t /\ minp pw + nleaves t * wpc <= maxp pw /\
    mpu_write {| fx_final_loop := false; fx_spill_min := true; fx_left_id := true |}
              pw wpc spill [] false [] t = Err (EAssert 207).
Proof.
  exists {| minw := 4; minp := 1; maxp := 5 |}, 1, 8,
    (Node (Leaf [([1;2;3;4;5;6;7;8;9;10;11;12;13;14;15;16;17;18;19;20], Some 0)])
          (Leaf [([1;2;3;4;5;6;7;8;9;10;11;12;13;14;15;16;17;18;19;20;21;22;23;24;25;26;27;28;29;30], Some 1);
                 ([7;8;9], Some 2)])).
  repeat split; try (simpl; lia); try (simpl; congruence); try (vm_compute; reflexivity).
Qed.
Print Assumptions C06_unrepaired_final_partition_refuted.

(* F3: with 0 < spill_sz < min_write_sz a non-final part smaller than the minimum was written *)
Theorem C06_unrepaired_small_spill_refuted :
  exists (pw : writer) wpc spill (t : tree Z Z) fp log obs,
    0 <= minw pw /\ 1 <= wpc /\ 0 <= spill /\ tree_ok t /\ minp pw + nleaves t * wpc <= maxp pw /\
    mpu_write {| fx_final_loop := true; fx_spill_min := false; fx_left_id := true |}
              pw wpc spill [] true [9] t = Ok (fp, log, obs) /\
    forallb (fun p => minw pw <=? len (snd p)) (removelast fp) = false.
Proof.
  exists {| minw := 4; minp := 1; maxp := 9 |}, 2, 1,
    (Leaf [([1;2;3;4;5;6;7;8;9], Some 0); ([10], Some 1)]).
  eexists _, _, _.
  split; [simpl; lia|]. split; [lia|]. split; [lia|]. split; [simpl; congruence|]. split; [simpl; lia|].
  split; [vm_compute; reflexivity|]. vm_compute. reflexivity.
Qed.
Print Assumptions C06_unrepaired_small_spill_refuted.

(* F21: the left-over/header part was always numbered 1, outside the range of a writer
   whose first allowed part number is larger *)
Theorem C06_unrepaired_left_part_id_refuted :
  exists (pw : writer) wpc spill (t : tree Z Z) fp log obs,
    0 <= minw pw /\ 1 <= wpc /\ 0 <= spill /\ tree_ok t /\ minp pw + nleaves t * wpc <= maxp pw /\
    mpu_write {| fx_final_loop := true; fx_spill_min := true; fx_left_id := false |}
              pw wpc spill [] false [] t = Ok (fp, log, obs) /\
    forallb (fun x => (minp pw <=? x) && (x <=? maxp pw)) (map fst fp) = false.
Proof.
  exists {| minw := 2; minp := 3; maxp := 9 |}, 1, 0, (Leaf [([1;2;3], Some 0)]).
  eexists _, _, _.
  split; [simpl; lia|]. split; [lia|]. split; [lia|]. split; [simpl; congruence|]. split; [simpl; lia|].
  split; [vm_compute; reflexivity|]. vm_compute. reflexivity.
Qed.
Print Assumptions C06_unrepaired_left_part_id_refuted.
