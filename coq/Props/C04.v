(** Property C04 — tilings are exact partitions and blocks reassemble the mosaic.
    Only statements, each closed by [exact] of lemmas from Proofs/, followed by
    [Print Assumptions].

    Vocabulary (definitions of Proofs/TilesProofs.v, Proofs/BlocksProofs.v):
    [rt_wf t]        t is a tiling as its constructor builds it: regular with tile
                     sizes >= 1, base sizes >= 0 and the ceil-division tile count, or
                     variable with offsets = prefix sums of non-negative chunks whose
                     total is below 2^63 (the constructors establish it: first four
                     theorems);
    [By t i], [Bx t j]   lower boundary of tile row i / column j (closed forms below);
    [tile_region t (r,c)] = ((By r, By (r+1)), (Bx c, Bx (c+1)));  [in_roi R p]: pixel p
                     lies in R;  [in_grid t (r,c)]: 0 <= r,c < shape;
    [in_range S i] = -S <= i < S and [wrap_idx S i] = numpy's negative-index wrap;
    [valid_block t ((a,b),(c,d))]: 0 <= a < Sy, a <= b <= Sy, same for columns;
    [window_of box R]: the pixel window R of a GeoBox window (offset added, shape of R).
    Pairs are (y, x). *)
From Coq Require Import ZArith List Bool Lia Permutation.
From OG Require Import Base.Result Base.ListSel Model.Roi Model.Tiles Model.Blocks
     Proofs.TilesProofs Proofs.BlocksProofs Proofs.C04Lemmas.
Import ListNotations.
Open Scope Z_scope.

(** * Constructors *)

(** regular: any base >= 0 (>= 1 for a non-degenerate tiling) and any tile >= 1;
    the tile count S is the ceiling of base/tile *)
Theorem C04_tiles_init :
  forall base tile t,
    0 < fst tile -> 0 < snd tile -> 0 <= fst base -> 0 <= snd base ->
    tiles_init base tile = Ok t ->
    rt_wf (RReg t) /\ t_base t = base /\ t_tile t = tile /\
    t_shape t = (cdiv (fst base) (fst tile), cdiv (snd base) (snd tile)) /\
    (fst (t_shape t) - 1) * fst tile < fst base <= fst (t_shape t) * fst tile /\
    (snd (t_shape t) - 1) * snd tile < snd base <= snd (t_shape t) * snd tile.
Proof. exact c04_tiles_init. Qed.
Print Assumptions C04_tiles_init.

Theorem C04_tiles_init_total :
  forall base tile,
    (0 < fst tile -> 0 < snd tile -> 0 <= fst base -> 0 <= snd base -> exists t, tiles_init base tile = Ok t) /\
    (tiles_init base tile = Err EOther <-> fst tile = 0 \/ snd tile = 0).
Proof. exact c04_tiles_init_total. Qed.
Print Assumptions C04_tiles_init_total.

(** variable: every pair of chunk tuples with non-negative entries (so in particular
    positive ones) whose totals fit int64; shape, base and chunks are what was given
    (sum chunks = base) and the boundaries are the prefix sums *)
Theorem C04_vtiles_init :
  forall chy chx,
    nonneg chy -> nonneg chx -> sumZ chy < two63 -> sumZ chx < two63 ->
    exists v, vt_init chy chx = Ok v /\
      rt_wf (RVar v) /\ rt_shape (RVar v) = (len chy, len chx) /\
      rt_base (RVar v) = Ok (sumZ chy, sumZ chx) /\ rt_chunks (RVar v) = Ok (chy, chx) /\
      (forall i, 0 <= i <= len chy -> By (RVar v) i = sumZ (firstn (Z.to_nat i) chy)) /\
      (forall j, 0 <= j <= len chx -> Bx (RVar v) j = sumZ (firstn (Z.to_nat j) chx)).
Proof. exact c04_vtiles_init. Qed.
Print Assumptions C04_vtiles_init.

(** an entry outside int64 is an error (OverflowError), not a wrapped tiling *)
Theorem C04_vtiles_init_overflow :
  forall chy chx, forallb fits64 chy = false \/ forallb fits64 chx = false ->
    vt_init chy chx = Err EOther.
Proof. exact vt_init_overflow. Qed.
Print Assumptions C04_vtiles_init_overflow.

(** closed form of the boundaries of a regular tiling: tile r spans rows
    [r*n, min((r+1)*n, N)) *)
Theorem C04_regular_boundaries :
  forall t i, By (RReg t) i = Z.min (i * fst (t_tile t)) (fst (t_base t)) /\
              Bx (RReg t) i = Z.min (i * snd (t_tile t)) (snd (t_base t)).
Proof. exact c04_regular_boundaries. Qed.
Print Assumptions C04_regular_boundaries.

(** * Index validation: IndexError exactly outside [-S, S), negative indices count from the right *)
Theorem C04_index :
  forall t r c, rt_wf t ->
    rt_getitem t (int_idx (r, c)) =
      if in_range (fst (rt_shape t)) r && in_range (snd (rt_shape t)) c
      then Ok (tile_region t (wrap_idx (fst (rt_shape t)) r, wrap_idx (snd (rt_shape t)) c))
      else Err EIndex.
Proof. exact rt_index. Qed.
Print Assumptions C04_index.

(** tile_shape agrees with the regions (and raises IndexError for the same indices) *)
Theorem C04_tile_shape :
  forall t r c, rt_wf t -> 0 < fst (rt_shape t) -> 0 < snd (rt_shape t) ->
    rt_tile_shape t (r, c) =
      if in_range (fst (rt_shape t)) r && in_range (snd (rt_shape t)) c
      then Ok (roi_shape2 (tile_region t (wrap_idx (fst (rt_shape t)) r, wrap_idx (snd (rt_shape t)) c)))
      else Err EIndex.
Proof. exact rt_tile_shape_spec. Qed.
Print Assumptions C04_tile_shape.

(** * Partition *)

(** every pixel of the rectangle lies in exactly one tile, namely [locate pixel] *)
Theorem C04_partition :
  forall t NY NX y x, rt_wf t -> rt_base t = Ok (NY, NX) -> 0 <= y < NY -> 0 <= x < NX ->
    exists rc, rt_locate t (y, x) = Ok rc /\ in_grid t rc /\
               rt_getitem t (int_idx rc) = Ok (tile_region t rc) /\
               in_roi (tile_region t rc) (y, x) /\
               forall rc', in_grid t rc' -> in_roi (tile_region t rc') (y, x) -> rc' = rc.
Proof. exact c04_partition. Qed.
Print Assumptions C04_partition.

(** locate of any pixel of tile rc is rc *)
Theorem C04_locate_inverse :
  forall t rc y x, rt_wf t -> in_grid t rc -> in_roi (tile_region t rc) (y, x) ->
    rt_locate t (y, x) = Ok rc.
Proof. exact c04_locate_inverse. Qed.
Print Assumptions C04_locate_inverse.

(** locate raises IndexError exactly outside the rectangle *)
Theorem C04_locate_outside :
  forall t NY NX y x, rt_wf t -> rt_base t = Ok (NY, NX) -> ~ (0 <= y < NY /\ 0 <= x < NX) ->
    rt_locate t (y, x) = Err EIndex.
Proof. exact c04_locate_outside. Qed.
Print Assumptions C04_locate_outside.

(** tile regions are pairwise disjoint ... *)
Theorem C04_disjoint :
  forall t rc rc' p, rt_wf t -> in_grid t rc -> in_grid t rc' ->
    in_roi (tile_region t rc) p -> in_roi (tile_region t rc') p -> rc = rc'.
Proof. exact rt_disjoint. Qed.
Print Assumptions C04_disjoint.

(** ... and their union is exactly the rectangle *)
Theorem C04_cover_exact :
  forall t NY NX y x, rt_wf t -> rt_base t = Ok (NY, NX) ->
    ((0 <= y < NY /\ 0 <= x < NX) <-> exists rc, in_grid t rc /\ in_roi (tile_region t rc) (y, x)).
Proof. exact rt_cover_exact. Qed.
Print Assumptions C04_cover_exact.

(** regular tiles are never empty (ragged last tile, 1-pixel tiles, tile larger than the image) *)
Theorem C04_regular_tiles_nonempty :
  forall t rc, rt_wf (RReg t) -> in_grid (RReg t) rc ->
    let r := tile_region (RReg t) rc in fst (fst r) < snd (fst r) /\ fst (snd r) < snd (snd r).
Proof. exact reg_tile_nonempty. Qed.
Print Assumptions C04_regular_tiles_nonempty.

(** chunks/shape/base agree with the regions: one entry per tile row/column, entry r is
    the height of tile row r, and sum chunks = base *)
Theorem C04_chunks :
  forall t NY NX, rt_wf t -> rt_base t = Ok (NY, NX) -> 0 < fst (rt_shape t) -> 0 < snd (rt_shape t) ->
    exists chy chx, rt_chunks t = Ok (chy, chx) /\
      len chy = fst (rt_shape t) /\ len chx = snd (rt_shape t) /\
      (forall r, 0 <= r < fst (rt_shape t) -> nthZ chy r = By t (r + 1) - By t r) /\
      (forall c, 0 <= c < snd (rt_shape t) -> nthZ chx c = Bx t (c + 1) - Bx t c) /\
      sumZ chy = NY /\ sumZ chx = NX.
Proof. exact c04_chunks. Qed.
Print Assumptions C04_chunks.

(** what happens for base size 0: no tiles; every lookup, locate and chunks raise IndexError *)
Theorem C04_empty_base :
  forall t ty tx NX, 0 < ty -> 0 < tx -> 0 <= NX -> tiles_init (0, NX) (ty, tx) = Ok t ->
    fst (t_shape t) = 0 /\
    (forall r c, tiles_getitem t (int_idx (r, c)) = Err EIndex) /\
    (forall p, tiles_locate t p = Err EIndex) /\
    tiles_chunks t = Err EIndex.
Proof. exact reg_empty_base. Qed.
Print Assumptions C04_empty_base.

(** * Blocks of tiles (slice selections), crop and clip *)

(** Tiles[a:b, c:d] is the union of the selected tiles (empty for a = b) *)
Theorem C04_block :
  forall t blk, rt_wf t -> valid_block t blk -> rt_getitem t (mk_roi blk) = Ok (block_region t blk).
Proof. exact rt_block. Qed.
Print Assumptions C04_block.

Theorem C04_block_out_of_range :
  forall t a b c d, rt_wf t -> 0 <= a -> 0 <= b -> 0 <= c -> 0 <= d ->
    fst (rt_shape t) < a \/ fst (rt_shape t) < b \/ snd (rt_shape t) < c \/ snd (rt_shape t) < d ->
    rt_getitem t (mk_roi ((a, b), (c, d))) = Err EIndex.
Proof. exact rt_block_err. Qed.
Print Assumptions C04_block_out_of_range.

(** crop to a block of tiles = the tiling of the cropped rectangle, indices shifted by
    the block origin *)
Theorem C04_crop :
  forall t blk, rt_wf t -> valid_block t blk ->
    exists t', rt_crop t (mk_roi blk) = Ok t' /\ rt_wf t' /\
      rt_shape t' = (snd (fst blk) - fst (fst blk), snd (snd blk) - fst (snd blk)) /\
      rt_base t' = Ok (roi_shape2 (block_region t blk)) /\
      forall i j, in_grid t' (i, j) ->
        in_grid t (fst (fst blk) + i, fst (snd blk) + j) /\
        exists r', rt_getitem t' (int_idx (i, j)) = Ok r' /\
                   rt_getitem t (int_idx (fst (fst blk) + i, fst (snd blk) + j)) =
                     Ok (shift_roi r' (By t (fst (fst blk)), Bx t (fst (snd blk)))).
Proof. exact c04_crop. Qed.
Print Assumptions C04_crop.

(** clip_tiles: the bounding block of the selection, cropped, with re-based indices *)
Theorem C04_clip :
  forall t p r t' roi new, rt_wf t -> Forall (in_grid t) (p :: r) ->
    clip_tiles t (p :: r) = Ok (t', roi, new) ->
    valid_block t roi /\ rt_crop t (mk_roi roi) = Ok t' /\
    new = map (fun yx => (fst yx - fst (fst roi), snd yx - fst (snd roi))) (p :: r) /\
    In (fst (fst roi)) (map fst (p :: r)) /\ In (snd (fst roi) - 1) (map fst (p :: r)) /\
    In (fst (snd roi)) (map snd (p :: r)) /\ In (snd (snd roi) - 1) (map snd (p :: r)) /\
    Forall (fun yx =>
              let n := (fst yx - fst (fst roi), snd yx - fst (snd roi)) in
              in_grid t' n /\
              exists r', rt_getitem t' (int_idx n) = Ok r' /\
                         rt_getitem t (int_idx yx) =
                           Ok (shift_roi r' (By t (fst (fst roi)), Bx t (fst (snd roi))))) (p :: r).
Proof. exact clip_tiles_tiles. Qed.
Print Assumptions C04_clip.

Theorem C04_clip_total :
  forall t p r, rt_wf t -> Forall (in_grid t) (p :: r) ->
    (exists res, clip_tiles t (p :: r) = Ok res) /\ clip_tiles t [] = Err EValue.
Proof. exact c04_clip_total. Qed.
Print Assumptions C04_clip_total.

(** * GeoboxTiles *)

(** tile idx of a tiled GeoBox is the parent GeoBox cropped to the region Tiles[idx] ... *)
Theorem C04_geoboxtiles_getitem :
  forall g idx,
    gbt_getitem g idx =
      match rt_getitem (gb_tiles g) idx with
      | Ok r => Ok (gbox_crop (gb_box g) (mk_roi r))
      | Err e => Err e
      end.
Proof. exact gbt_getitem_is_crop. Qed.
Print Assumptions C04_geoboxtiles_getitem.

(** ... i.e. for a tile index in the grid, exactly the pixel window of that tile, and
    chunk_shape is its shape; outside the grid IndexError *)
Theorem C04_geoboxtiles_tile :
  forall g, rt_wf (gb_tiles g) ->
    (forall rc, in_grid (gb_tiles g) rc ->
       gbt_getitem g (int_idx rc) = Ok (window_of (gb_box g) (tile_region (gb_tiles g) rc)) /\
       gbt_chunk_shape g rc = Ok (roi_shape2 (tile_region (gb_tiles g) rc))) /\
    (forall r c, in_range (fst (rt_shape (gb_tiles g))) r && in_range (snd (rt_shape (gb_tiles g))) c = false ->
       gbt_getitem g (int_idx (r, c)) = Err EIndex) /\
    gbt_chunks g = rt_chunks (gb_tiles g) /\ gbt_shape g = rt_shape (gb_tiles g).
Proof. exact c04_geoboxtiles_tile. Qed.
Print Assumptions C04_geoboxtiles_tile.

(** crop: the cropped grid's base is the block's pixel window, its tiling the cropped
    tiling, and tile (i,j) of it is the same pixel window as tile (a+i, c+j) of the parent *)
Theorem C04_geoboxtiles_crop :
  forall g blk, rt_wf (gb_tiles g) -> valid_block (gb_tiles g) blk ->
    exists g', gbt_crop g (mk_roi blk) = Ok g' /\
      gb_box g' = window_of (gb_box g) (block_region (gb_tiles g) blk) /\
      rt_crop (gb_tiles g) (mk_roi blk) = Ok (gb_tiles g') /\ rt_wf (gb_tiles g') /\
      forall i j, in_grid (gb_tiles g') (i, j) ->
        gbt_getitem g' (int_idx (i, j)) = gbt_getitem g (int_idx (fst (fst blk) + i, fst (snd blk) + j)).
Proof. exact c04_geoboxtiles_crop. Qed.
Print Assumptions C04_geoboxtiles_crop.

(** clip: every selected tile is found under its re-based index in the clipped grid *)
Theorem C04_geoboxtiles_clip :
  forall g p r, rt_wf (gb_tiles g) -> Forall (in_grid (gb_tiles g)) (p :: r) ->
    exists g' new o, gbt_clip g (p :: r) = Ok (g', new) /\
      new = map (fun yx => (fst yx - fst o, snd yx - snd o)) (p :: r) /\
      Forall (fun yx => let n := (fst yx - fst o, snd yx - snd o) in
                        in_grid (gb_tiles g') n /\
                        gbt_getitem g' (int_idx n) = gbt_getitem g (int_idx yx)) (p :: r).
Proof. exact c04_geoboxtiles_clip. Qed.
Print Assumptions C04_geoboxtiles_clip.

(** * BlockAssembler *)

(** the constructor accepts any subset of well-shaped blocks (key in range, extent
    = prefix ++ [chunk_y; chunk_x] ++ postfix with common prefix/postfix) and computes the
    mosaic shape; a block whose Y/X extent is not its chunk is a ValueError *)
Theorem C04_assembler_init :
  forall pre post chy chx keys,
    nonneg chy -> nonneg chx -> tot chy < two63 -> tot chx < two63 ->
    Forall (key_ok chy chx) keys -> (keys <> [] \/ (pre = [] /\ post = [])) ->
    exists a t, ba_init (map (fun k => (k, block_shape pre post chy chx k)) keys) chy chx (len pre) = Ok a /\
      vt_init chy chx = Ok t /\ rt_wf (RVar t) /\
      ba_shape a = pre ++ [sumZ chy; sumZ chx] ++ post /\ ba_axis a = len pre /\ ba_tiles a = t.
Proof. exact ba_init_ok. Qed.
Print Assumptions C04_assembler_init.

Theorem C04_assembler_rejects_misshaped_block :
  forall pre post chy chx k sy sx rest,
    key_ok chy chx k -> (sy, sx) <> (nthZ chy (fst k), nthZ chx (snd k)) ->
    ba_verify_shape ((k, pre ++ [sy; sx] ++ post) :: rest) chy chx (len pre) = Err EValue.
Proof. exact verify_shape_mismatch. Qed.
Print Assumptions C04_assembler_rejects_misshaped_block.

(** the working dtype (np.result_type of all present blocks, float32 without blocks) does
    not depend on the order in which the blocks were inserted ... *)
Theorem C04_assembler_dtype_order_independent :
  forall a b : list dtype, Permutation a b -> ba_dtype a = ba_dtype b.
Proof. exact ba_dtype_perm. Qed.
Print Assumptions C04_assembler_dtype_order_independent.

(** ... and, for integer blocks of at most 32 bits, it holds every value of every block:
    copying a block into the working array changes no pixel *)
Theorem C04_assembler_dtype_holds_every_block :
  forall dts d, Forall dt_valid dts -> Forall narrow_int dts -> In d dts -> dt_holds d (ba_dtype dts).
Proof. exact ba_dtype_holds. Qed.
Print Assumptions C04_assembler_dtype_holds_every_block.

(** an explicitly requested dtype is the dtype of the result, whatever the fill value *)
Theorem C04_assembler_explicit_dtype_wins :
  forall d r f, ba_extract_dtype_opt d (Some r) f = r.
Proof. exact ba_extract_dtype_explicit. Qed.
Print Assumptions C04_assembler_explicit_dtype_wins.

(** a requested Y/X window (ry, rx) — ints, open or negative slices — is normalised
    against the mosaic shape (C17: the normalised slice selects the same elements) and
    the result has the extra axes unchanged *)
Theorem C04_assembler_window :
  forall a pre post ny nx ry rx,
    ba_shape a = pre ++ [ny; nx] ++ post -> ba_axis a = len pre -> nonneg pre -> nonneg post ->
    let wy := norm_ss ry ny in
    let wx := norm_ss rx nx in
    fst wy <= snd wy -> fst wx <= snd wx ->
    exists nroi full, ba_plan a (Some [ry; rx]) = Ok (nroi, (wy, wx), full, full) /\
                      full = pre ++ [snd wy - fst wy; snd wx - fst wx] ++ post.
Proof. exact ba_plan_yx. Qed.
Print Assumptions C04_assembler_window.

(** the link to C17: what the three-way intersection of a tile [t0,t1) and a window
    [w0,w1) means for the numpy views extract() copies between *)
Theorem C04_intersect3_views :
  forall t0 t1 w0 w1, 0 <= t0 <= t1 -> 0 <= w0 <= w1 ->
    exists s' d' ab',
      slice_intersect3 (mk_sl (t0, t1)) (mk_sl (w0, w1)) = Ok (s', d', ab') /\
      let es := eff (t1 - t0) s' in
      let ed := eff (w1 - w0) d' in
      snd es = snd ed /\
      (forall y, inside ed y = true <-> (0 <= y < w1 - w0 /\ t0 <= w0 + y < t1)) /\
      (forall y, inside ed y = true -> fst es + (y - fst ed) = w0 + y - t0).
Proof. exact intersect3_axis. Qed.
Print Assumptions C04_intersect3_views.

(** assembly: for every tiling, every subset of present blocks (distinct keys, each block
    as large as its tile), every window with 0 <= start <= stop (it may exceed the
    mosaic), every re-indexing of the extra axes and every cast, extract succeeds, has the
    window's shape and at every pixel holds the (cast) value of the block of the tile
    containing that pixel if that block is present, else the fill value *)
Theorem C04_assembly :
  forall (E V W : Type) (cast : V -> W) (esel : E -> E) (t : vtiles) (fill : W)
         (w : (Z * Z) * (Z * Z)),
    rt_wf (RVar t) ->
    0 <= fst (fst w) <= snd (fst w) -> 0 <= fst (snd w) <= snd (snd w) ->
    forall bl : list ((Z * Z) * arr (E:=E) V),
    NoDup (map fst bl) -> Forall (block_ok t) bl ->
    exists out, extract_yx cast esel t bl fill w = Ok out /\ a_sh out = roi_shape2 w /\
      forall e y x, 0 <= y < fst (roi_shape2 w) -> 0 <= x < snd (roi_shape2 w) ->
        a_at out e y x = mosaic cast t fill bl (esel e) (fst (fst w) + y) (fst (snd w) + x).
Proof. exact @extract_spec. Qed.
Print Assumptions C04_assembly.

(** * Non-vacuity and recorded corner cases (evaluated, not assumed) *)
Example C04_ex_regular :
  (t <- tiles_init (10, 7) (4, 3) ;;
   r <- tiles_getitem t (int_idx (-1, 2)) ;; l <- tiles_locate t (9, 6) ;; c <- tiles_chunks t ;;
   Ok (t_shape t, r, l, c)) = Ok ((3, 3), ((8, 10), (6, 7)), (2, 2), ([4; 4; 2], [3; 3; 1])).
Proof. vm_compute. reflexivity. Qed.

Example C04_ex_tile_larger_than_image :
  (t <- tiles_init (3, 3) (10, 10) ;; r <- tiles_getitem t (int_idx (0, 0)) ;; Ok (t_shape t, r))
  = Ok ((1, 1), ((0, 3), (0, 3))).
Proof. vm_compute. reflexivity. Qed.

Example C04_ex_variable :
  (v <- vt_init [3; 1; 4] [2; 5] ;;
   r <- vt_getitem v (int_idx (-1, 0)) ;; l <- vt_locate v (3, 2) ;; s <- vt_tile_shape v (-1, -1) ;;
   Ok (r, l, s)) = Ok (((4, 8), (0, 2)), (1, 1), (4, 5)).
Proof. vm_compute. reflexivity. Qed.

(** the repaired index validation: below -shape is an IndexError (used to wrap around) *)
Example C04_ex_variable_negative_out_of_range :
  (v <- vt_init [3; 1; 4] [2; 5] ;; vt_getitem v (int_idx (-5, 0))) = Err EIndex.
Proof. vm_compute. reflexivity. Qed.

(** Tiles[S:S] at the very end: IndexError for regular tiles, an empty region for
    variable ones (outside [valid_block]; decided not to be a finding, DESIGN section 6) *)
Example C04_ex_empty_selection_at_end :
  (t <- tiles_init (10, 7) (4, 3) ;; tiles_getitem t (mk_roi ((3, 3), (0, 1)))) = Err EIndex /\
  (t <- tiles_init (10, 7) (4, 3) ;; tiles_getitem t (mk_roi ((2, 2), (0, 1)))) = Ok ((8, 8), (0, 3)) /\
  (v <- vt_init [3; 1; 4] [2; 5] ;; vt_getitem v (mk_roi ((3, 3), (0, 1)))) = Ok ((8, 8), (0, 2)).
Proof. vm_compute. auto. Qed.

(** with an empty base, tile_shape((-1, ..)) answers the tile size instead of raising
    (outside the property: base sizes >= 1) *)
Example C04_ex_empty_base_quirk :
  (t <- tiles_init (0, 5) (4, 3) ;; tiles_tile_shape t (-1, 0)) = Ok (4, 3).
Proof. vm_compute. reflexivity. Qed.

(** the bound "total < 2^63" of C04_vtiles_init is needed: beyond it the int64 offsets wrap *)
Example C04_ex_offsets_wrap_beyond_int64 :
  (v <- vt_init [4611686018427387904; 4611686018427387904; 5] [1] ;; vt_base v)
  = Ok (-9223372036854775803, 1).
Proof. vm_compute. reflexivity. Qed.

(** narrow block first, wide block second: the common type is the wide one; int16, uint16 and
    float32 give float32 (not the pairwise float64); uint64 with a signed block gives float64,
    which is why the value theorem asks for integers of at most 32 bits *)
Example C04_ex_dtype :
  ba_dtype [DU 8; DU 16] = DU 16 /\ ba_dtype [DI 16; DU 16; DF 32] = DF 32 /\
  ba_dtype [DU 32; DI 8] = DI 64 /\ ba_dtype [DU 64; DI 8] = DF 64 /\ ba_dtype [] = DF 32.
Proof. vm_compute. auto. Qed.

(** assembly of a 2x2 layout with one present block, window straddling all four tiles *)
Example C04_ex_assembly :
  (t <- vt_init [2; 2] [2; 3] ;;
   out <- extract_yx (E:=unit) (fun v : Z => v) (fun e => e) t
            [((1, 1), Build_arr (2, 3) (fun _ y x => 10 * y + x))] (-1) ((1, 4), (1, 4)) ;;
   Ok (map (fun y => map (fun x => a_at out tt y x) [0; 1; 2]) [0; 1; 2]))
  = Ok [[-1; -1; -1]; [-1; 0; 1]; [-1; 10; 11]].
Proof. vm_compute. reflexivity. Qed.

(** Tie to the source: the tile-count expression of [Tiles.__init__] and the nested helpers
    [Tiles.__getitem__._slice] and [Tiles.tile_shape._sz] as regenerated by tools/py2v from the
    current odc/geo/roi.py (coq/Gen/TilesGen.v, rewritten on every run) are the model
    (Model/Tiles.v) the theorems above are stated on. *)
From OG Require Proofs.TilesGenEquiv.
Theorem C04_source_is_model : OG.Proofs.TilesGenEquiv.tiles_source_is_model.
Proof. exact OG.Proofs.TilesGenEquiv.tiles_source_is_model_holds. Qed.
Print Assumptions C04_source_is_model.
