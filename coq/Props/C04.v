(** placeholder, replaced below *)
From Coq Require Import ZArith.
From OG Require Import Model.Tiles Model.Blocks.
Theorem C04_stub : True. Proof. exact I. Qed.
Print Assumptions C04_stub.
