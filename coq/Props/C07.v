(** Property C07 — geometry reprojection and densification are faithful.
    Only statements, each closed by [exact] of a lemma from Proofs/DensifyProofs.v,
    followed by [Print Assumptions].

    Reading guide.  Coordinates are exact rationals.  [densify_gen repaired sq] /
    [segmented_gen repaired sq] / [to_crs_gen ... repaired sq] are the models of
    odc.geo.geom.densify / Geometry.segmented / Geometry.to_crs as they now stand
    in the repo branch (Model/Densify.v); [sq] is ANY function returning
    non-negative square roots ([sqrt_spec]) — the executable instance is
    [exact_sqrt] — and in the per-segment statements the segment length [L] is a
    universally quantified number with [0 < L] and [L * L == sqdist p1 p2].
    The projection, CRS equality, validity/repair and antimeridian helpers are
    universally quantified functions (oracles).  The predicates [max_gap],
    [refines], [subseq], [path_len], ... are defined in Model/DensifySpec.v. *)
From Coq Require Import ZArith QArith Qround List Bool.
From OG Require Import Base.Result Model.Densify Model.DensifySpec Proofs.DensifyProofs.
Import ListNotations.
Open Scope Q_scope.

(* ====================================================================== densify *)

(** a successful densification was asked with a positive resolution, inserts
    between consecutive vertices only points p1 + t (p2 - p1), 0 < t1 < ... < tn < 1,
    and leaves no two consecutive output points more than [r] apart *)
Theorem C07_densify_refines_and_max_gap :
  forall sq, sqrt_spec sq -> forall cs r out,
    densify_gen repaired sq cs r = Ok out ->
    0 < r /\ refines cs out /\ max_gap r out.
Proof. exact densify_spec. Qed.
Print Assumptions C07_densify_refines_and_max_gap.

(** it succeeds for every positive resolution and every coordinate list whose
    edges have a root under [sq] ... *)
Theorem C07_densify_total :
  forall sq, sqrt_spec sq -> forall cs r,
    0 < r -> roots_exist sq cs -> exists out, densify_gen repaired sq cs r = Ok out.
Proof. exact densify_total. Qed.
Print Assumptions C07_densify_total.

(** ... and fails only with ValueError for a non-positive resolution or, in the
    executable model, on a long edge of irrational length (never IndexError, never
    a loop that does not finish) *)
Theorem C07_densify_errors :
  forall sq, sqrt_spec sq -> forall cs r e,
    densify_gen repaired sq cs r = Err e ->
    (e = EValue /\ r <= 0) \/
    (e = EOther /\ 0 < r /\
     exists p q, adjacent p q cs /\ r * r <= sqdist p q /\ sq (sqdist p q) = None).
Proof. exact densify_errors. Qed.
Print Assumptions C07_densify_errors.

Theorem C07_densify_nonpositive_resolution_is_ValueError :
  forall sq cs r, r <= 0 -> densify_gen repaired sq cs r = Err EValue.
Proof. exact densify_nonpositive. Qed.
Print Assumptions C07_densify_nonpositive_resolution_is_ValueError.

(** the executable square root meets the contract *)
Theorem C07_exact_sqrt_is_a_root : sqrt_spec exact_sqrt.
Proof. exact exact_sqrt_spec. Qed.
Print Assumptions C07_exact_sqrt_is_a_root.

(** the algebraic core with the root as a variable: on a segment of length [L]
    points at arc lengths [a], [b] are |b - a| apart, the point at [a] is L - a
    from the end; hence the loop, which steps by [r] while [d < L], leaves gaps of
    exactly r and a last gap L - d <= r *)
Theorem C07_segment_gap_algebra :
  forall p1 p2 L a b, 0 < L -> L * L == sqdist p1 p2 ->
    sqdist (lerp p1 p2 (a / L)) (lerp p1 p2 (b / L)) == (b - a) * (b - a) /\
    sqdist (lerp p1 p2 (a / L)) p2 == (L - a) * (L - a).
Proof.
  intros p1 p2 L a b HL H. split.
  - exact (sqdist_at p1 p2 L _ a b HL H (pt_eq_refl _)).
  - exact (sqdist_at_end p1 p2 L _ a HL H (pt_eq_refl _)).
Qed.
Print Assumptions C07_segment_gap_algebra.

Theorem C07_loop_gaps :
  forall p1 p2 L r, 0 < L -> 0 < r -> L * L == sqdist p1 p2 ->
  forall fuel mid, dloop fuel p1 p2 L r r = Some mid ->
    max_gap r (p1 :: mid ++ [p2]) /\
    exists ts, mid = map (lerp p1 p2) ts /\ increasing 0 ts 1.
Proof.
  intros p1 p2 L r HL Hr H fuel mid Hd. split.
  - intros i p q. apply (chain_nth (within r) p1 (mid ++ [p2])).
    apply (dloop_gap p1 p2 L r HL Hr H fuel r p1 mid Hd).
    + unfold pt_eq, lerp; simpl; split; field; apply Qnot_eq_sym, Qlt_not_eq; exact HL.
    + setoid_replace (r - r) with 0 by ring. exact HL.
  - destruct (dloop_params p1 p2 L r HL Hr H fuel r mid Hd) as (ts & E & Hts).
    exists ts. split; [exact E|]. apply Hts.
    + apply Qlt_shift_div_l; [exact HL|]. setoid_replace (0 * L) with 0 by ring. exact Hr.
    + reflexivity.
Qed.
Print Assumptions C07_loop_gaps.

Theorem C07_loop_terminates :
  forall p1 p2 L r, 0 < L -> 0 < r -> L * L == sqdist p1 p2 ->
    exists mid, dloop (seg_fuel L r) p1 p2 L r r = Some mid.
Proof. exact dloop_total. Qed.
Print Assumptions C07_loop_terminates.

(* ====================================================================== what [refines] implies *)

(** original vertices are retained, in order; first and last vertex are kept *)
Theorem C07_refines_keeps_vertices_in_order :
  forall cs out, refines cs out ->
    subseq cs out /\ hd_error out = hd_error cs /\ (forall d, last out d = last cs d) /\
    (length cs <= length out)%nat.
Proof.
  intros cs out H. repeat split.
  - exact (refines_subseq cs out H).
  - exact (refines_hd cs out H).
  - intros d. exact (refines_last cs out d H).
  - exact (refines_length cs out H).
Qed.
Print Assumptions C07_refines_keeps_vertices_in_order.

(** every output point is an original vertex or lies strictly inside an original edge *)
Theorem C07_refines_added_points_on_edges :
  forall cs out, refines cs out -> forall x, In x out ->
    In x cs \/ exists p1 p2 t, adjacent p1 p2 cs /\ 0 < t /\ t < 1 /\ x = lerp p1 p2 t.
Proof. exact refines_points. Qed.
Print Assumptions C07_refines_added_points_on_edges.

(** the shoelace sum (twice the signed area of a ring) is unchanged *)
Theorem C07_refines_preserves_shoelace :
  forall cs out, refines cs out -> shoelace2 out == shoelace2 cs.
Proof. exact refines_shoelace. Qed.
Print Assumptions C07_refines_preserves_shoelace.

(** the polyline length is unchanged (for every polyline that has a rational
    length; lengths are unique) *)
Theorem C07_refines_preserves_length :
  forall cs out, refines cs out -> forall Lc, path_len cs Lc ->
    (exists Lo, path_len out Lo) /\ (forall Lo, path_len out Lo -> Lo == Lc).
Proof.
  intros cs out H Lc Hc. destruct (refines_path_len cs out H Lc Hc) as (Lo & HLo & E).
  split; [exists Lo; exact HLo|].
  intros Lo' H'. rewrite (path_len_unique out Lo' Lo H' HLo). exact E.
Qed.
Print Assumptions C07_refines_preserves_length.

(** the edge pieces, with the edge length as a variable: the parts between
    parameters s <= t of an edge of length l have length (t - s) l *)
Theorem C07_edge_pieces_length :
  forall p1 p2 l s t, seg_len p1 p2 l -> s <= t ->
    seg_len (lerp p1 p2 s) (lerp p1 p2 t) ((t - s) * l).
Proof. intros p1 p2 l s t H Hst. exact (seg_len_piece p1 p2 l _ s t H (pt_eq_refl _) Hst). Qed.
Print Assumptions C07_edge_pieces_length.

(* ====================================================================== Geometry.segmented *)

(** for every geometry kind: same constructor and part / ring structure; every
    coordinate sequence is refined (points and multi-points unchanged); no edge
    longer than the resolution; area unchanged *)
Theorem C07_segmented_faithful :
  forall sq, sqrt_spec sq -> forall r g g',
    segmented_gen repaired sq r g = Ok g' ->
    kind_skeleton g' = kind_skeleton g /\
    Forall2 refines (paths g) (paths g') /\
    Forall (max_gap r) (paths g') /\
    geom_area g' == geom_area g.
Proof. exact segmented_spec. Qed.
Print Assumptions C07_segmented_faithful.

Theorem C07_segmented_preserves_length :
  forall sq, sqrt_spec sq -> forall r g g',
    segmented_gen repaired sq r g = Ok g' ->
    forall L, paths_len (paths g) L -> exists L', paths_len (paths g') L' /\ L' == L.
Proof.
  intros sq Hsq r g g' H. destruct (segmented_spec sq Hsq r g g' H) as (_ & H2 & _).
  exact (refines_paths_len _ _ H2).
Qed.
Print Assumptions C07_segmented_preserves_length.

Theorem C07_segmented_total :
  forall sq, sqrt_spec sq -> forall r, 0 < r -> forall g,
    Forall (roots_exist sq) (paths g) -> exists g', segmented_gen repaired sq r g = Ok g'.
Proof. exact segmented_total. Qed.
Print Assumptions C07_segmented_total.

Theorem C07_segmented_errors :
  forall sq, sqrt_spec sq -> forall r g e,
    segmented_gen repaired sq r g = Err e -> (e = EValue /\ r <= 0) \/ (e = EOther /\ 0 < r).
Proof. exact segmented_errors. Qed.
Print Assumptions C07_segmented_errors.

(** the computable lengths of the model (compared with shapely's in the
    correspondence run) are lengths in the sense of [path_len] *)
Theorem C07_path_length_sound :
  forall sq, sqrt_spec sq -> forall l L, path_length sq l = Some L -> path_len l L.
Proof. exact path_length_sound. Qed.
Print Assumptions C07_path_length_sound.

(* ====================================================================== Geometry.to_crs *)

(** shapely.ops.transform, as a structural map, preserves constructor, part / ring
    structure and vertex counts, and maps vertex number i to [f] of vertex number i *)
Theorem C07_transform_structure_and_vertices :
  forall f g, skeleton (gmap f g) = skeleton g /\
              vertices (gmap f g) = map f (vertices g) /\
              paths (gmap f g) = map (map f) (paths g).
Proof. intros f g. repeat split; [apply gmap_skeleton | apply gmap_vertices | apply gmap_paths]. Qed.
Print Assumptions C07_transform_structure_and_vertices.

Section Oracles.
  Variable crs : Type.
  Variable crs_eqb : crs -> crs -> bool.
  Variable geographic : crs -> bool.
  Variable proj : crs -> crs -> pt -> pt.
  Variable is_valid : geom -> bool.
  Variable repair chop_antimeridian clip_lon180 : geom -> geom.
  Variable sq : Q -> option Q.

  Let to_crs := to_crs_gen crs crs_eqb geographic proj is_valid repair chop_antimeridian clip_lon180
                           repaired sq.
  Let plain := plain crs geographic is_valid.

  (** a target that normalises to None, or a geometry without CRS: ValueError *)
  Theorem C07_to_crs_errors :
    forall self g c rs w cf,
      to_crs self g None rs w cf = Err EValue /\ to_crs None g (Some c) rs w cf = Err EValue.
  Proof. intros. split; reflexivity. Qed.

  (** already in the target CRS: the very same object, whatever the other arguments;
      and only then *)
  Theorem C07_to_crs_same_crs_returns_self :
    forall s c g rs w cf, crs_eqb s c = true -> to_crs (Some s) g (Some c) rs w cf = Ok Same.
  Proof. exact (to_crs_same crs crs_eqb geographic proj is_valid repair chop_antimeridian clip_lon180 sq). Qed.

  Theorem C07_to_crs_self_only_for_same_crs :
    forall self g target rs w cf, to_crs self g target rs w cf = Ok Same ->
      exists s c, self = Some s /\ target = Some c /\ crs_eqb s c = true.
  Proof. exact (to_crs_same_only crs crs_eqb geographic proj is_valid repair chop_antimeridian clip_lon180 sq). Qed.

  (** no densification (resolution None, inf/nan, or not positive): the point-wise image *)
  Theorem C07_to_crs_maps_every_vertex :
    forall s c g rs w cf, crs_eqb s c = false ->
      (rs = RNone \/ rs = RNonFinite \/ exists r, rs = RNum r /\ r <= 0) ->
      plain w cf c (gmap (proj s c) g) ->
      to_crs (Some s) g (Some c) rs w cf = Ok (Fresh (gmap (proj s c) g) c).
  Proof.
    intros s c g rs w cf H [Hrs|[Hrs|(r & Hrs & Hr)]] Hp.
    - apply to_crs_undensified; auto.
    - apply to_crs_undensified; auto.
    - subst rs. apply to_crs_nonpositive; auto.
  Qed.

  (** positive resolution: the point-wise image of the densified geometry;
      "auto" is the resolution computed by [auto_resolution] *)
  Theorem C07_to_crs_densifies_then_maps :
    forall s c g r g1 w cf, crs_eqb s c = false -> 0 < r ->
      segmented_gen repaired sq r g = Ok g1 ->
      plain w cf c (gmap (proj s c) g1) ->
      to_crs (Some s) g (Some c) (RNum r) w cf = Ok (Fresh (gmap (proj s c) g1) c).
  Proof. exact (to_crs_densified crs crs_eqb geographic proj is_valid repair chop_antimeridian clip_lon180 sq). Qed.

  Theorem C07_to_crs_auto :
    forall s c g a w cf, crs_eqb s c = false -> auto_resolution sq g = Ok a ->
      to_crs (Some s) g (Some c) RAuto w cf = to_crs (Some s) g (Some c) (RNum a) w cf.
  Proof. exact (to_crs_auto crs crs_eqb geographic proj is_valid repair chop_antimeridian clip_lon180 sq). Qed.

  (** summary for the default flags, every resolution: the result is the point-wise
      image of the geometry or of a densification of it with a positive resolution *)
  Theorem C07_to_crs_faithful :
    forall self g target rs g' c',
      to_crs self g target rs false false = Ok (Fresh g' c') ->
      exists s, self = Some s /\ target = Some c' /\ crs_eqb s c' = false /\
        exists g1, g' = gmap (proj s c') g1 /\
                   (g1 = g \/ exists r, 0 < r /\ segmented_gen repaired sq r g = Ok g1).
  Proof. exact (to_crs_faithful crs crs_eqb geographic proj is_valid repair chop_antimeridian clip_lon180 sq). Qed.
End Oracles.
Print Assumptions C07_to_crs_errors.
Print Assumptions C07_to_crs_same_crs_returns_self.
Print Assumptions C07_to_crs_self_only_for_same_crs.
Print Assumptions C07_to_crs_maps_every_vertex.
Print Assumptions C07_to_crs_densifies_then_maps.
Print Assumptions C07_to_crs_auto.
Print Assumptions C07_to_crs_faithful.

(* ====================================================================== non-vacuity *)
Example C07_ex_densify :
  densify [(0, 0); (48, 64); (48, 65)] 15 =
  Ok [(0, 0); (720 # 80, 960 # 80); (1440 # 80, 1920 # 80); (2160 # 80, 2880 # 80);
      (2880 # 80, 3840 # 80); (3600 # 80, 4800 # 80); (48, 64); (48, 65)].
Proof. vm_compute. reflexivity. Qed.

Example C07_ex_roots_exist : roots_exist exact_sqrt [(0, 0); (48, 64); (48, 65)].
Proof.
  intros p q (l1 & l2 & E).
  destruct l1 as [|a [|b [|c l1]]]; inversion E; subst; try (vm_compute; discriminate).
  destruct l1; discriminate.
Qed.

Example C07_ex_segmented_polygon_with_hole :
  segmented 4 (Multi MCollection
                 [Point (1, 2);
                  Polygon [(0, 0); (0, 8); (8, 8); (8, 0); (0, 0)] [[(2, 2); (6, 2); (2, 5); (2, 2)]]]) =
  Ok (Multi MCollection
        [Point (1, 2);
         Polygon [(0, 0); (0 # 8, 32 # 8); (0, 8); (32 # 8, 64 # 8); (8, 8); (64 # 8, 32 # 8); (8, 0);
                  (32 # 8, 0 # 8); (0, 0)]
                 [[(2, 2); (6, 2); (14 # 5, 22 # 5); (2, 5); (2, 2)]]]).
Proof. vm_compute. reflexivity. Qed.

Example C07_ex_to_crs_auto :
  to_crs_gen Z Z.eqb (fun _ => false) (fun _ _ p => (snd p, fst p + 1)) (fun _ => true)
             (fun g => g) (fun g => g) (fun g => g) repaired exact_sqrt
             (Some 1%Z) (Polygon [(0, 0); (0, 100); (100, 100); (100, 0); (0, 0)] []) (Some 2%Z)
             RAuto false false
  = Ok (Fresh (gmap (fun p => (snd p, fst p + 1))
                    (match segmented (100 * 4 / 100) (Polygon [(0, 0); (0, 100); (100, 100); (100, 0); (0, 0)] [])
                     with Ok g => g | Err _ => Point (0, 0) end)) 2%Z).
Proof. vm_compute. reflexivity. Qed.

(* ====================================================================== the code as found *)
(** Each of the four repairs made under this property is necessary: with the
    corresponding switch of [fixes] off the model violates the statement; the
    witnesses are replayed on the implementation from corpus/C07/ (where they now
    pass). *)

(* F1 (8b793ae): short_enough compared p1.x^2 + p2.x^2 with res^2 *)
Theorem C07_unrepaired_short_enough_refuted :
  exists cs r out,
    0 < r /\ densify_gen (Build_fixes false true true true) exact_sqrt cs r = Ok out /\
    ~ max_gap r out.
Proof.
  exists [(0, 0); (0, 100)], 10, [(0, 0); (0, 100)].
  split; [reflexivity|]. split; [vm_compute; reflexivity|].
  intros H. specialize (H 0%nat (0, 0) (0, 100) eq_refl eq_refl).
  vm_compute in H. apply H. reflexivity.
Qed.
Print Assumptions C07_unrepaired_short_enough_refuted.

(* 0d98c78: for a resolution <= 0 the densify loop never finishes, whatever the fuel *)
Theorem C07_unrepaired_nonpositive_resolution_refuted :
  (forall p1 p2 L r fuel d, r <= 0 -> d < L -> dloop fuel p1 p2 L r d = None) /\
  densify_gen (Build_fixes true false true true) exact_sqrt [(0, 0); (3, 4)] 0 = Err ERuntime.
Proof.
  split; [intros; apply dloop_diverges; assumption | vm_compute; reflexivity].
Qed.
Print Assumptions C07_unrepaired_nonpositive_resolution_refuted.

(* b9d25ee: an empty coordinate list (empty LineString / Polygon) raised IndexError *)
Theorem C07_unrepaired_empty_refuted :
  densify_gen (Build_fixes true true false true) exact_sqrt [] 1 = Err EIndex /\
  segmented_gen (Build_fixes true true false true) exact_sqrt 1 (Polygon [] []) = Err EIndex.
Proof. split; vm_compute; reflexivity. Qed.
Print Assumptions C07_unrepaired_empty_refuted.

(* ecfe9c0: to_crs(resolution="auto") on a zero-area geometry densified with
   resolution 0 and never returned *)
Theorem C07_unrepaired_auto_zero_area_refuted :
  forall crs crs_eqb geographic proj is_valid repair chop clip (s c : crs) w cf,
    crs_eqb s c = false ->
    to_crs_gen crs crs_eqb geographic proj is_valid repair chop clip
               (Build_fixes true false true false) exact_sqrt
               (Some s) (Line [(0, 0); (3, 4)]) (Some c) RAuto w cf = Err ERuntime.
Proof. exact unrepaired_auto_zero_area. Qed.
Print Assumptions C07_unrepaired_auto_zero_area_refuted.
