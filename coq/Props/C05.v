(** Property C05 — parallel (dask) COG writer: layout rule, tile enumeration,
    offsets, overview-first.  Only statements, each closed by [exact] of a lemma
    from Proofs/, followed by [Print Assumptions].

    Vocabulary (Model/CogLayout.v follows odc/geo/cog/_shared.py and
    odc/geo/cog/_tifffile.py statement by statement):
      [make_levels bs (H, W)]   per-IFD (shape, tile) sequence of _make_empty_cog
      [flat_tile_idx], [tidx], [cog_tidx], [writer_order]   tile enumeration
      [extract_tile_info], [patch_hdr_tags]   offsets/bytecounts (tags 324/325)
                                from the observed (tile, size) stream
    An observed stream is a list of [((level, plane, iy, ix), size)]. *)
From Coq Require Import ZArith List Bool Lia Permutation.
From OG Require Import Base.Result Base.ListSel Model.Roi Model.CogLayout
  Proofs.CogLayoutProofs Proofs.CogTilesProofs Proofs.CogOffsetsProofs Proofs.CogTidxOrder.
Import ListNotations.
Open Scope Z_scope.

(** ** 1. tile sizes are positive multiples of 16 (adjust_blocksize / norm_blocksize) *)
Theorem C05_tile_sizes_multiple_of_16 :
  forall b : blk, blk_pos b ->
    0 < fst (norm_blocksize b) /\ fst (norm_blocksize b) mod 16 = 0 /\
    0 < snd (norm_blocksize b) /\ snd (norm_blocksize b) mod 16 = 0.
Proof. exact norm_blocksize_spec. Qed.
Print Assumptions C05_tile_sizes_multiple_of_16.

Theorem C05_adjust_blocksize :
  forall block dim, 1 <= block ->
    0 < adjust_blocksize block dim /\ adjust_blocksize block dim mod 16 = 0.
Proof. exact adjust_blocksize_spec. Qed.
Print Assumptions C05_adjust_blocksize.

(** ** 2. overview count: the least c with dim // 2^c <= block *)
Theorem C05_overview_count :
  forall block dim, 0 <= block -> 1 <= dim ->
    exists c, num_overviews block dim = Ok c /\ 0 <= c /\ dim / 2 ^ c <= block /\
              (forall k, 0 <= k < c -> block < dim / 2 ^ k).
Proof. exact num_overviews_spec. Qed.
Print Assumptions C05_overview_count.

(** ** 3. the layout rule, for every image shape >= 1 and every non-empty list
    of positive block sizes: n is the larger of the two per-axis overview
    counts (taken with the LAST block size); level 0 is the image padded to
    align_up(dim, 2^n) (so 0 <= padding < 2^n, on the far side only); there are
    n+1 levels; level k has tile norm_blocksize(bs[min k last]) (positive
    multiples of 16) and shape padded / 2^k with NO rounding (shape_k * 2^k =
    padded), every level being at least 1x1. *)
Theorem C05_layout_rule :
  forall bs H W, bs <> [] -> Forall blk_pos bs -> 1 <= H -> 1 <= W ->
  exists lv n nh nw,
    make_levels bs (H, W) = Ok (lv, n) /\
    num_overviews (fst (norm_blocksize (last bs (BInt 0)))) H = Ok nh /\
    num_overviews (snd (norm_blocksize (last bs (BInt 0)))) W = Ok nw /\
    n = Z.max nh nw /\ 0 <= n /\
    length lv = S (Z.to_nat n) /\
    let H' := align_up H (2 ^ n) in
    let W' := align_up W (2 ^ n) in
    (H <= H' /\ H' - H < 2 ^ n /\ H' mod 2 ^ n = 0) /\
    (W <= W' /\ W' - W < 2 ^ n /\ W' mod 2 ^ n = 0) /\
    forall k, 0 <= k <= n ->
      exists l, nth_error lv (Z.to_nat k) = Some l /\
        l_tile l = norm_blocksize (nth_block bs (Z.to_nat k)) /\
        tile_ok (l_tile l) /\
        l_shape l = (H' / 2 ^ k, W' / 2 ^ k) /\
        fst (l_shape l) * 2 ^ k = H' /\ snd (l_shape l) * 2 ^ k = W' /\
        1 <= fst (l_shape l) /\ 1 <= snd (l_shape l).
Proof. exact make_levels_spec. Qed.
Print Assumptions C05_layout_rule.

(** each overview is exactly half of the previous level — no rounding ever occurs *)
Theorem C05_overview_exactly_half :
  forall bs H W lv n k a b,
    bs <> [] -> Forall blk_pos bs -> 1 <= H -> 1 <= W ->
    make_levels bs (H, W) = Ok (lv, n) -> 0 <= k < n ->
    nth_error lv (Z.to_nat k) = Some a -> nth_error lv (Z.to_nat (k + 1)) = Some b ->
    fst (l_shape b) * 2 = fst (l_shape a) /\ snd (l_shape b) * 2 = snd (l_shape a).
Proof. exact make_levels_halving. Qed.
Print Assumptions C05_overview_exactly_half.

(** the CogMeta list built by _make_empty_cog for the accepted array layouts *)
Theorem C05_make_empty_cog_metas :
  forall shape gshape ya bs ax yaxis,
    yaxis_from_shape shape gshape ya = Ok (ax, yaxis) ->
    bs <> [] -> Forall blk_pos bs -> Forall (fun d => 1 <= d) shape ->
    exists H W ns lv n,
      (match ax with
       | YX => shape = [H; W] /\ ns = 1
       | YXS => shape = [H; W; ns]
       | SYX => shape = [ns; H; W]
       end) /\
      make_levels bs (H, W) = Ok (lv, n) /\
      make_metas shape gshape ya bs = Ok (metas_of ax ns lv) /\
      Forall wf_meta (metas_of ax ns lv) /\ uniform_planes (metas_of ax ns lv).
Proof. exact make_metas_spec. Qed.
Print Assumptions C05_make_empty_cog_metas.

(** default block sizes of save_cog_with_dask are positive, so the layout
    theorems apply to them *)
Theorem C05_default_blocksize_positive :
  forall chunks, 1 <= fst chunks -> 1 <= snd chunks ->
    default_blocksize chunks <> [] /\ Forall blk_pos (default_blocksize chunks).
Proof. exact default_blocksize_pos. Qed.
Print Assumptions C05_default_blocksize_positive.

(** a tile without a source block (compressed from an empty block) lies entirely
    in the padding; a tile with a source block contains at least one data row/column *)
Theorem C05_tiles_without_source_are_padding :
  forall dim tile y, 0 < tile -> 1 <= dim -> 0 <= y ->
    (y < nblocks dim tile -> y * tile < dim) /\ (nblocks dim tile <= y -> dim <= y * tile).
Proof. exact nblocks_spec. Qed.
Print Assumptions C05_tiles_without_source_are_padding.

(** tiles cover the image: chunked * tile >= shape > (chunked - 1) * tile *)
Theorem C05_tiles_cover_image :
  forall m, wf_meta m ->
    (fst (chunked m) - 1) * fst (m_tile m) < fst (m_shape m) <= fst (chunked m) * fst (m_tile m) /\
    (snd (chunked m) - 1) * snd (m_tile m) < snd (m_shape m) <= snd (chunked m) * snd (m_tile m).
Proof. exact chunked_covers. Qed.
Print Assumptions C05_tiles_cover_image.

(** ** 4. flat_tile_idx is a bijection planes x ny x nx -> [0, num_tiles) *)
Theorem C05_flat_tile_idx_in_range :
  forall m idx, in_range m idx ->
    exists t, flat_tile_idx m idx = Ok t /\ 0 <= t < num_tiles m /\ unflat m t = idx.
Proof. exact flat_tile_idx_ok. Qed.
Print Assumptions C05_flat_tile_idx_in_range.

Theorem C05_flat_tile_idx_out_of_range :
  forall m idx, ~ in_range m idx -> flat_tile_idx m idx = Err EIndex.
Proof. exact flat_tile_idx_err. Qed.
Print Assumptions C05_flat_tile_idx_out_of_range.

Theorem C05_flat_tile_idx_injective :
  forall m a b t, flat_tile_idx m a = Ok t -> flat_tile_idx m b = Ok t -> a = b.
Proof. exact flat_tile_idx_inj. Qed.
Print Assumptions C05_flat_tile_idx_injective.

Theorem C05_flat_tile_idx_surjective :
  forall m t, wf_meta m -> 0 <= t < num_tiles m ->
    in_range m (unflat m t) /\ flat_tile_idx m (unflat m t) = Ok t.
Proof. exact flat_tile_idx_surj. Qed.
Print Assumptions C05_flat_tile_idx_surjective.

(** tidx / cog_tidx enumerate every tile exactly once *)
Theorem C05_tidx_enumerates_once :
  forall m, NoDup (tidx m) /\ forall idx, In idx (tidx m) <-> in_range m idx.
Proof. exact tidx_enumerates_once. Qed.
Print Assumptions C05_tidx_enumerates_once.

(** ... and in flat-index order: position k of the tidx() stream is tile k of
    TileOffsets/TileByteCounts (a list equation, not only a bijection) *)
Theorem C05_tidx_in_flat_order :
  forall m, wf_counts m ->
    map (flat_tile_idx m) (tidx m) = map (@Ok Z) (CogLayout.zrange (num_tiles m)).
Proof. exact tidx_flat_order. Qed.
Print Assumptions C05_tidx_in_flat_order.

Theorem C05_wf_counts_of_positive_tiles :
  forall m, 0 <= m_nsamples m -> 0 <= fst (m_shape m) -> 0 <= snd (m_shape m) ->
    0 < fst (m_tile m) -> 0 < snd (m_tile m) -> wf_counts m.
Proof. exact wf_counts_of_pos. Qed.
Print Assumptions C05_wf_counts_of_positive_tiles.

(** per-plane stream tidx(sample_idx=s): plane s fills the contiguous flat slots
    [s*ny*nx, (s+1)*ny*nx) in order *)
Theorem C05_tidx_plane_in_flat_order :
  forall m s, wf_counts m -> 0 <= s < num_planes m ->
    map (flat_tile_idx m) (tidx_plane m s) =
    map (fun j => Ok (s * (fst (chunked m) * snd (chunked m)) + j))
        (CogLayout.zrange (fst (chunked m) * snd (chunked m))).
Proof. exact tidx_plane_flat_order. Qed.
Print Assumptions C05_tidx_plane_in_flat_order.

Theorem C05_cog_tidx_enumerates_once :
  forall mm, NoDup (cog_tidx mm) /\ forall t, In t (cog_tidx mm) <-> valid_tile mm t.
Proof. exact cog_tidx_enumerates_once. Qed.
Print Assumptions C05_cog_tidx_enumerates_once.

(** ** 5. offsets.  For EVERY observed stream that enumerates each tile exactly
    once, in any order, with any sizes: _extract_tile_info succeeds and the
    entry of the n-th stream element is (start + sum of the sizes before it,
    its size); a zero-size tile keeps the initial (0, 0) entry. *)
Theorem C05_offsets_exact :
  forall mm stream start, complete_stream mm stream ->
  exists info,
    extract_tile_info mm stream start = Ok info /\ wf_info mm info /\
    forall n o, nth_error stream n = Some o ->
      getE info (key_fn mm (tile_of o)) =
        if size_of o =? 0 then (0, 0) else (start + presum (map size_of stream) n, size_of o).
Proof. exact extract_tile_info_spec. Qed.
Print Assumptions C05_offsets_exact.

(** what _patch_hdr writes into tags 324/325: the same shifted by the header
    length; an empty tile gets (hdr_sz, 0), i.e. an empty byte range *)
Theorem C05_header_entries :
  forall mm stream hdr_sz, complete_stream mm stream ->
  exists tags,
    patch_hdr_tags mm stream hdr_sz = Ok tags /\ length tags = length mm /\
    forall n o, nth_error stream n = Some o ->
      getE tags (key_fn mm (tile_of o)) =
        if size_of o =? 0 then (hdr_sz, 0)
        else (hdr_sz + presum (map size_of stream) n, size_of o).
Proof. exact patch_hdr_tags_spec. Qed.
Print Assumptions C05_header_entries.

(** every tile of the image is described by the two theorems above, and
    distinct tiles have distinct table slots *)
Theorem C05_every_tile_has_an_entry :
  forall mm stream t, complete_stream mm stream -> valid_tile mm t ->
    exists n o, nth_error stream n = Some o /\ tile_of o = t.
Proof. exact complete_stream_covers. Qed.
Print Assumptions C05_every_tile_has_an_entry.

Theorem C05_distinct_tiles_distinct_slots :
  forall mm a b, valid_tile mm a -> valid_tile mm b -> key_fn mm a = key_fn mm b -> a = b.
Proof. exact key_fn_inj. Qed.
Print Assumptions C05_distinct_tiles_distinct_slots.

(** byte ranges [off n, off n + size n) with off n = start + presum sizes n:
    in stream order and pairwise disjoint ... *)
Theorem C05_offsets_in_stream_order_and_disjoint :
  forall sizes start n1 n2 s1,
    Forall (fun s => 0 <= s) sizes -> (n1 < n2)%nat -> nth_error sizes n1 = Some s1 ->
    start + presum sizes n1 + s1 <= start + presum sizes n2.
Proof. exact offsets_ordered. Qed.
Print Assumptions C05_offsets_in_stream_order_and_disjoint.

(** ... inside the data area ... *)
Theorem C05_offsets_within_data_area :
  forall sizes start n s,
    Forall (fun s => 0 <= s) sizes -> nth_error sizes n = Some s ->
    start <= start + presum sizes n /\ start + presum sizes n + s <= start + zsum sizes.
Proof. exact offsets_within. Qed.
Print Assumptions C05_offsets_within_data_area.

(** ... and gap-free: every byte of the data area belongs to exactly one tile *)
Theorem C05_offsets_gap_free :
  forall sizes start b,
    Forall (fun s => 0 <= s) sizes -> start <= b < start + zsum sizes ->
    exists n s, nth_error sizes n = Some s /\
                start + presum sizes n <= b < start + presum sizes n + s.
Proof. exact offsets_gap_free. Qed.
Print Assumptions C05_offsets_gap_free.

Theorem C05_offsets_no_overlap :
  forall sizes start b n1 n2 s1 s2,
    Forall (fun s => 0 <= s) sizes ->
    nth_error sizes n1 = Some s1 -> nth_error sizes n2 = Some s2 ->
    start + presum sizes n1 <= b < start + presum sizes n1 + s1 ->
    start + presum sizes n2 <= b < start + presum sizes n2 + s2 ->
    n1 = n2.
Proof. exact offsets_unique. Qed.
Print Assumptions C05_offsets_no_overlap.

(** ** 6. each entry addresses exactly its tile's bytes — conditional on the
    byte-stream theorem of property C06 (multi-part assembly): the file is the
    header followed by the encoded tiles in observed order. *)
Section WithC06.
  Context {A : Type}.
  Variable encoded : obs -> list A.          (* bytes produced for a stream element *)
  Variable hdr : list A.                     (* header returned by _patch_hdr *)
  Variable file : list A.
  Variable stream : list obs.
  Hypothesis sizes_observed : forall o, In o stream -> size_of o = len (encoded o).
  Hypothesis C06_stream_preserved : file = hdr ++ concat (map encoded stream).

  Theorem C05_entry_addresses_tile_bytes :
    forall n o, nth_error stream n = Some o ->
      let off := len hdr + presum (map size_of stream) n in
      sel file off (off + size_of o) = encoded o.
  Proof. exact (tile_bytes_in_file_eq encoded hdr file stream sizes_observed C06_stream_preserved). Qed.
End WithC06.
Print Assumptions C05_entry_addresses_tile_bytes.

(** ** 7. the writer's own order (bags reversed: smallest level first) is a
    complete stream, and with it every overview tile ends before any
    full-resolution tile starts. *)
Theorem C05_writer_order_complete :
  forall mm, uniform_planes mm -> Permutation (writer_order mm) (cog_tidx mm).
Proof. exact writer_order_perm. Qed.
Print Assumptions C05_writer_order_complete.

Theorem C05_overview_first :
  forall mm (stream : list obs) start n1 n2 o1 o2,
    map tile_of stream = writer_order mm ->
    Forall (fun o => 0 <= size_of o) stream ->
    nth_error stream n1 = Some o1 -> nth_error stream n2 = Some o2 ->
    1 <= lvl (tile_of o1) -> lvl (tile_of o2) = 0 ->
    start + presum (map size_of stream) n1 + size_of o1 <= start + presum (map size_of stream) n2.
Proof. exact overview_first_writer. Qed.
Print Assumptions C05_overview_first.

(** ** 8. non-vacuity: a 50 x 70 image, blocksize [32, 16] (cf. the first
    end-to-end run): 3 overviews, padded to 56 x 72, levels halve exactly. *)
Example C05_example_layout :
  make_levels [BInt 32; BInt 16] (50, 70) =
    Ok ([Level (56, 72) (32, 32); Level (28, 36) (16, 16); Level (14, 18) (16, 16); Level (7, 9) (16, 16)], 3).
Proof. vm_compute. reflexivity. Qed.

Example C05_example_stream :
  let mm := metas_of YX 1 [Level (56, 72) (32, 32); Level (28, 36) (16, 16);
                           Level (14, 18) (16, 16); Level (7, 9) (16, 16)] in
  let stream := map (fun t => (t, if lvl t =? 3 then 0 else 10 + lvl t)) (writer_order mm) in
  length stream = 15%nat /\
  patch_hdr_tags mm stream 1000 =
    Ok [([1090; 1100; 1110; 1120; 1130; 1140], [10; 10; 10; 10; 10; 10]);
        ([1024; 1035; 1046; 1057; 1068; 1079], [11; 11; 11; 11; 11; 11]);
        ([1000; 1012], [12; 12]);
        ([1000], [0])] /\
  uniform_planes mm /\ complete_stream mm stream.
Proof.
  cbn zeta. split; [vm_compute; reflexivity|]. split; [vm_compute; reflexivity|].
  split; [apply uniform_planes_map|].
  unfold complete_stream. rewrite map_map. cbn [tile_of fst]. rewrite map_id.
  apply writer_order_perm, uniform_planes_map.
Qed.

(** Tie to the source: adjust_blocksize and num_overviews (its while loop as a fixpoint on explicit
    fuel) as regenerated by tools/py2v from the current odc/geo/cog/_shared.py (coq/Gen/CogGen.v,
    rewritten on every run) are the model (Model/CogLayout.v) the theorems above are stated on. *)
From OG Require Proofs.CogGenEquiv.
Theorem C05_source_is_model : OG.Proofs.CogGenEquiv.cog_source_is_model.
Proof. exact OG.Proofs.CogGenEquiv.cog_source_is_model_holds. Qed.
Print Assumptions C05_source_is_model.

(** ** Composition with C06, unconditional: in the file assembled by [mpu_write] along ANY merge
    tree (every partitioning of the tile stream, every bracketing of merges, every spill size,
    writes-per-chunk and writer limits with enough part numbers), the offset computed from the
    sizes the header callback observed addresses exactly the bytes of that tile.  This discharges
    the hypothesis [C06_stream_preserved] of [C05_entry_addresses_tile_bytes] with the theorem of
    property C06 (Model/Mpu.v); [zsum (firstn n sizes)] is [presum sizes n]. *)
From OG Require Model.Mpu Proofs.MpuProofs Proofs.CogMpuCompose.
Theorem C05_offsets_address_tiles_under_any_schedule :
  forall (A CI : Type) (pw : OG.Model.Mpu.writer), 0 <= OG.Model.Mpu.minw pw ->
  forall wpc spill (hdr : list A) (t : OG.Model.Mpu.tree A CI),
    1 <= wpc -> 0 <= spill -> OG.Model.Mpu.tree_ok t ->
    OG.Model.Mpu.minp pw + OG.Model.Mpu.nleaves t * wpc <= OG.Model.Mpu.maxp pw ->
    exists fp log,
      OG.Model.Mpu.mpu_write OG.Model.Mpu.fixed pw wpc spill hdr false [] t
        = Ok (fp, log, OG.Model.Mpu.obs_of (OG.Model.Mpu.tree_chunks t)) /\
      let file := concat (map snd fp) in
      let sizes := map fst (OG.Model.Mpu.obs_of (OG.Model.Mpu.tree_chunks t)) in
      forall n c, nth_error (OG.Model.Mpu.tree_chunks t) n = Some c ->
        let off := len hdr + OG.Proofs.CogMpuCompose.zsum (firstn n sizes) in
        sel file off (off + len (fst c)) = fst c.
Proof. exact @OG.Proofs.CogMpuCompose.offsets_address_chunks_in_assembled_file. Qed.
Print Assumptions C05_offsets_address_tiles_under_any_schedule.
