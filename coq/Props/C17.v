(** Property C17 — ROI (slice) helpers agree with array slicing semantics.
    Only statements, each closed by [exact] of a lemma from Proofs/, followed by
    [Print Assumptions].  [X] is an arbitrary list (a 1-d array over any type);
    [sel X s e] is numpy's [X[s:e]] for non-negative bounds and [np_get] the
    CPython/numpy indexing semantics for arbitrary int/slice indices. *)
From Coq Require Import ZArith QArith Qround List Bool Lia.
From OG Require Import Base.Result Base.ListSel Model.Roi Proofs.RoiProofs Proofs.RoiPointsProofs Proofs.RoiGenEquiv.
Import ListNotations.
Open Scope Z_scope.

(** a normalised slice selects the same elements as the original *)
Theorem C17_norm_slice_same_selection :
  forall (A : Type) (X : list A) (a b st : option Z), step_ok st ->
    np_get X (norm_slice (SSl a b st) (len X)) = np_get X (SSl a b st).
Proof. exact @norm_slice_same_selection. Qed.
Print Assumptions C17_norm_slice_same_selection.

Theorem C17_norm_int_same_selection :
  forall (A : Type) (X : list A) (i : Z) (l : list A),
    np_get X (SInt i) = Some l -> np_get X (norm_slice (SInt i) (len X)) = Some l.
Proof. exact @norm_int_same_selection. Qed.
Print Assumptions C17_norm_int_same_selection.

(** three-way intersection: X[a][a'] = X[b][b'] = X[ab'], ab' = common index set *)
Theorem C17_slice_intersect3 :
  forall (A : Type) (X : list A) a b a0 a1 sa b0 b1 sb,
    norm_slice_or_error a = Ok (a0, a1, sa) ->
    norm_slice_or_error b = Ok (b0, b1, sb) ->
    a0 <= a1 -> b0 <= b1 ->
    exists a' b' ab',
      slice_intersect3 a b = Ok (a', b', ab') /\
      0 <= fst a' <= snd a' /\ 0 <= fst b' <= snd b' /\ 0 <= fst ab' <= snd ab' /\
      sel (sel X a0 a1) (fst a') (snd a') = sel X (fst ab') (snd ab') /\
      sel (sel X b0 b1) (fst b') (snd b') = sel X (fst ab') (snd ab') /\
      (forall i, fst ab' <= i < snd ab' <-> (a0 <= i < a1 /\ b0 <= i < b1)).
Proof. exact @slice_intersect3_spec. Qed.
Print Assumptions C17_slice_intersect3.

(** ... and it fails (ValueError) exactly on open-ended / negative inputs *)
Theorem C17_slice_intersect3_error :
  forall a b e,
    slice_intersect3 a b = Err e <->
    (norm_slice_or_error a = Err e \/
     (exists v, norm_slice_or_error a = Ok v) /\ norm_slice_or_error b = Err e).
Proof. exact slice_intersect3_error. Qed.
Print Assumptions C17_slice_intersect3_error.

Theorem C17_roi_intersect_is_common_part :
  forall a b, slice_intersect a b =
              match slice_intersect3 a b with Ok (_, _, ab) => Ok ab | Err e => Err e end.
Proof. exact slice_intersect_is_ab. Qed.
Print Assumptions C17_roi_intersect_is_common_part.

(** shape, emptiness, fullness, centre *)
Theorem C17_shape_is_length :
  forall (A : Type) (X : list A) a b st, 0 <= a <= b -> b <= len X ->
    slice_dim (SSl (Some a) (Some b) st) = Ok (len (sel X a b)).
Proof. exact @slice_dim_is_length. Qed.
Print Assumptions C17_shape_is_length.

Theorem C17_empty_iff_no_elements :
  forall (A : Type) (X : list A) a b, 0 <= a -> 0 <= b <= len X ->
    ((b - a <=? 0) = true <-> sel X a b = []).
Proof. exact @slice_empty_iff. Qed.
Print Assumptions C17_empty_iff_no_elements.

Theorem C17_shape_and_empty_nd :
  forall ss : list (Z * Z),
    roi_shape (map mk ss) = Ok (map (fun ab => snd ab - fst ab) ss) /\
    roi_is_empty (map mk ss) = Ok (existsb (fun ab => snd ab - fst ab <=? 0) ss).
Proof. intros ss; split; [exact (roi_shape_nd ss) | exact (roi_is_empty_nd ss)]. Qed.
Print Assumptions C17_shape_and_empty_nd.

Theorem C17_full_sound :
  forall (A : Type) (X : list A) a b st,
    slice_full (SSl a b st) (len X) = true -> np_get X (SSl a b None) = Some X.
Proof. exact @slice_full_sound. Qed.
Print Assumptions C17_full_sound.

Theorem C17_full_complete :
  forall (A : Type) (X : list A) a b st, 0 <= a <= b -> b <= len X -> 0 < len X ->
    sel X a b = X -> slice_full (SSl (Some a) (Some b) st) (len X) = true.
Proof. exact @slice_full_complete. Qed.
Print Assumptions C17_full_complete.

Theorem C17_center :
  forall s a0 a1 st, norm_slice_or_error s = Ok (a0, a1, st) -> slice_center2 s = Ok (a0 + a1).
Proof. exact slice_center2_spec. Qed.
Print Assumptions C17_center.

(** padding grows by [pad], clamped to the array *)
Theorem C17_pad :
  forall n pad a b st, 0 <= a <= b -> b <= n -> 0 <= pad ->
    pad_slice pad (SSl (Some a) (Some b) st) n =
      SSl (Some (Z.max 0 (a - pad))) (Some (Z.min n (b + pad))) None /\
    let a' := Z.max 0 (a - pad) in
    let b' := Z.min n (b + pad) in
    0 <= a' <= a /\ b <= b' <= n /\
    (a' = a - pad \/ a' = 0) /\ (b' = b + pad \/ b' = n) /\
    (forall i, a' <= i < b' <-> (0 <= i < n /\ a - pad <= i < b + pad)).
Proof.
  intros n pad a b st Ha Hb Hp; split;
    [apply pad_slice_spec; lia | apply pad_slice_grows; assumption].
Qed.
Print Assumptions C17_pad.

(** scaling down then up contains the original and exceeds it by less than the factor *)
Theorem C17_scale_down_up :
  forall a b k, 0 <= a <= b -> 1 <= k ->
    let u := scaled_up_slice (scaled_down_slice (a, b) k) k None in
    fst u <= a /\ b <= snd u /\ a - fst u < k /\ snd u - b < k /\ fst u mod k = 0 /\ snd u mod k = 0.
Proof. exact scaled_down_up_contains. Qed.
Print Assumptions C17_scale_down_up.

(** point envelope *)
Theorem C17_roi_from_points :
  forall pts ny nx padding align x y,
    0 <= ny -> 0 <= nx -> 0 <= padding -> align_ok align ->
    In (Some (x, y)) pts ->
    (0 <= x)%Q -> (x <= inject_Z nx)%Q -> (0 <= y)%Q -> (y <= inject_Z ny)%Q ->
    let '((y0, y1), (x0, x1)) := roi_from_points pts ny nx padding align in
    (inject_Z x0 <= x)%Q /\ (x <= inject_Z x1)%Q /\ (inject_Z y0 <= y)%Q /\ (y <= inject_Z y1)%Q /\
    x0 <= Z.max 0 (Qfloor x - padding) /\ Z.min nx (Qceiling x + padding) <= x1 /\
    y0 <= Z.max 0 (Qfloor y - padding) /\ Z.min ny (Qceiling y + padding) <= y1 /\
    0 <= x0 <= nx /\ 0 <= x1 <= nx /\ 0 <= y0 <= ny /\ 0 <= y1 <= ny /\
    match align with
    | None => True
    | Some a => (x0 mod a = 0 \/ x0 = nx) /\ (x1 mod a = 0 \/ x1 = nx) /\
                (y0 mod a = 0 \/ y0 = ny) /\ (y1 mod a = 0 \/ y1 = ny)
    end.
Proof. exact roi_from_points_spec. Qed.
Print Assumptions C17_roi_from_points.

Theorem C17_roi_from_points_total :
  forall pts ny nx padding align,
    roi_from_points pts ny nx padding align =
      roi_from_points (map Some (keep_finite pts)) ny nx padding align /\
    (0 <= ny -> 0 <= nx ->
     let '((y0, y1), (x0, x1)) := roi_from_points pts ny nx padding align in
     0 <= x0 <= nx /\ 0 <= x1 <= nx /\ 0 <= y0 <= ny /\ 0 <= y1 <= ny).
Proof.
  intros; split; [apply roi_from_points_ignores_nonfinite | apply roi_from_points_within].
Qed.
Print Assumptions C17_roi_from_points_total.

(** Non-vacuity: concrete instances meeting the hypotheses (evaluated, not assumed). *)
Example C17_ex_intersect :
  slice_intersect3 (SSl (Some 2) (Some 9) None) (SSl None (Some 5) None) = Ok ((0, 3), (2, 5), (2, 5)).
Proof. vm_compute. reflexivity. Qed.
Example C17_ex_norm : norm_slice (SSl (Some (-15)) None None) 10 = SSl (Some 0) (Some 10) None.
Proof. vm_compute. reflexivity. Qed.
Example C17_ex_points :
  roi_from_points [Some (5#1, 5#1); Some (3000000000#1, 7#1); Some (-3000000000#1, 3#1); None]%Q
                  100 100 0 None = ((3, 7), (0, 100)).
Proof. vm_compute. reflexivity. Qed.

(** Tie to the source: the definitions regenerated by tools/py2v from the current
    odc/geo/roi.py and odc/geo/math.py (coq/Gen/RoiGen.v, rewritten on every run)
    are the model the theorems above are stated on. *)
Theorem C17_source_is_model : roi_source_is_model.
Proof. exact roi_source_is_model_holds. Qed.
Print Assumptions C17_source_is_model.
