import numpy as np, rasterio, xarray as xr, tempfile, os, warnings
from rasterio.io import MemoryFile
from affine import Affine
from odc.geo.geobox import GeoBox
from odc.geo.xr import xr_coords, wrap_xr
from odc.geo.cog._rio import _write_cog, write_cog, to_cog, check_write_path, _default_cog_opts
warnings.simplefilter('ignore')
def gb(h,w, tr=None): return GeoBox((h,w), Affine(4,0,1000,0,-4,2000) if tr is None else tr, 'epsg:32633')
def rd(b):
    with MemoryFile(b) as m, m.open() as f:
        return f.read(), f.transform, f.crs, f.nodata, f.block_shapes, f.overviews(1), f.dtypes
# layouts
for shape, g in [((5,7),(5,7)), ((3,5,7),(5,7)), ((5,7,3),(5,7)), ((4,4,4),(4,4)), ((5,7,2),(7,2)), ((5,7),(7,5)), ((2,5,7),(7,5)), ((5,), (5,1)), ((1,2,5,7),(5,7)), ((7,7,5),(7,5)), ((5,5,7),(5,7))]:
    pix = np.arange(int(np.prod(shape)), dtype='int16').reshape(shape)
    try:
        b = _write_cog(pix, gb(*g), ':mem:')
        a = rd(b)[0]
        print(shape, g, 'ok', a.shape, 'bandfirst' if (pix.ndim==3 and a.shape==pix.shape and (a==pix).all()) else ('bandlast' if pix.ndim==3 and (a==pix.transpose(2,0,1)).all() else ('2d' if (a[0]==pix).all() else '??')))
    except Exception as e:
        print(shape, g, type(e).__name__, e)
# cube via DataArray dims
g = gb(4,4)
pix = np.arange(64, dtype='int16').reshape(4,4,4)
xx = xr.DataArray(pix, dims=('band','y','x'), coords=xr_coords(g))
a = rd(to_cog(xx))[0]
print('cube band-first DataArray readback equals input:', (a==pix).all())
print(_default_cog_opts(blocksize=512, shape=(10,600)))
for bs in (512, 100, 17, 16, 1):
  for dim in (0, 1, 15, 16, 17, 100, 511, 512, 513):
    pass
for h,w in [(511,600),(512,512),(513,512),(600,511)]:
    pix = np.zeros((h,w),'uint8')
    r = rd(_write_cog(pix, gb(h,w), ':mem:'))
    print(h,w, r[5], r[4])
r = rd(_write_cog(np.zeros((600,700),'uint8'), gb(600,700), ':mem:', overview_levels=[2,4], blocksize=100, nodata=3))
print(r[4], r[5], r[3])
r = rd(_write_cog(np.zeros((20,30),'float64'), gb(20,30,Affine(3,4,10,4,-3,50)), ':mem:', blocksize=64, nodata=-1.5))
print(r[1], r[4], r[3], r[6])
