(** Lemmas about the _rio.py decision-logic model (Model/RioCog.v). *)
From Coq Require Import ZArith List Bool Lia Permutation.
From OG Require Import Base.Result Base.ListSel Model.Roi Proofs.RoiProofs Model.CogLayout
  Proofs.CogLayoutProofs Proofs.CogTilesProofs Proofs.CogOffsetsProofs Model.RioCog.
Import ListNotations.
Open Scope Z_scope.

(** * 1. row-major indexing *)
Lemma ravel_2 h w y x : ravel [h; w] [y; x] = y * w + x.
Proof. unfold ravel; simpl; ring. Qed.

Lemma ravel_3 d0 d1 d2 i j k : ravel [d0; d1; d2] [i; j; k] = (i * d1 + j) * d2 + k.
Proof. unfold ravel; simpl; ring. Qed.

(** output band b, row y, column x holds the input sample named by the layout *)
Lemma src_index_2d h w b y x : src_index L2d (1, h, w) b y x = ravel [h; w] [y; x].
Proof. rewrite ravel_2. reflexivity. Qed.

Lemma src_index_band_first nb h w b y x :
  src_index LBandFirst (nb, h, w) b y x = ravel [nb; h; w] [b; y; x].
Proof. rewrite ravel_3. reflexivity. Qed.

Lemma src_index_band_last nb h w b y x :
  src_index LBandLast (nb, h, w) b y x = ravel [h; w; nb] [y; x; b].
Proof. rewrite ravel_3. reflexivity. Qed.

(** * 2. which shapes are accepted, and how *)
Lemma zz_eq_true a b : zz_eq a b = true <-> a = b.
Proof.
  destruct a, b; unfold zz_eq; cbn [fst snd]. rewrite andb_true_iff, !Z.eqb_eq.
  split; [intros [-> ->]; reflexivity | intros H; inversion H; auto].
Qed.

Lemma zz_eq_false a b : zz_eq a b = false <-> a <> b.
Proof.
  split.
  - intros H E. apply zz_eq_true in E. congruence.
  - intros H. destruct (zz_eq a b) eqn:E; auto. apply zz_eq_true in E. contradiction.
Qed.

Lemma norm_layout_2d h w g ya :
  norm_layout [h; w] g ya = if zz_eq g (h, w) then Ok (L2d, (1, h, w)) else Err (EAssert 124).
Proof. reflexivity. Qed.

Lemma norm_layout_2d_ok h w ya : norm_layout [h; w] (h, w) ya = Ok (L2d, (1, h, w)).
Proof. simpl. rewrite (proj2 (zz_eq_true (h, w) (h, w)) eq_refl). reflexivity. Qed.

(** band-last array (H, W, B) with the shape-based guess *)
Lemma norm_layout_band_last_guess h w nb :
  norm_layout [h; w; nb] (h, w) None = Ok (LBandLast, (nb, h, w)).
Proof. simpl. rewrite (proj2 (zz_eq_true (h, w) (h, w)) eq_refl). reflexivity. Qed.

(** band-first array (B, H, W) with the shape-based guess: accepted as band-first
    unless (B, H) = (H, W), the inherent ambiguity of a cube-shaped array *)
Lemma norm_layout_band_first_guess nb h w :
  (nb, h) <> (h, w) -> norm_layout [nb; h; w] (h, w) None = Ok (LBandFirst, (nb, h, w)).
Proof.
  intros Hne. simpl. rewrite (proj2 (zz_eq_false (nb, h) (h, w)) Hne).
  rewrite (proj2 (zz_eq_true (h, w) (h, w)) eq_refl). reflexivity.
Qed.

(** ... and with the Y axis supplied by the caller there is no ambiguity *)
Lemma norm_layout_band_first_known nb h w :
  norm_layout [nb; h; w] (h, w) (Some 1) = Ok (LBandFirst, (nb, h, w)).
Proof. simpl. rewrite (proj2 (zz_eq_true (h, w) (h, w)) eq_refl). reflexivity. Qed.

Lemma norm_layout_band_last_known h w nb :
  norm_layout [h; w; nb] (h, w) (Some 0) = Ok (LBandLast, (nb, h, w)).
Proof. simpl. rewrite (proj2 (zz_eq_true (h, w) (h, w)) eq_refl). reflexivity. Qed.

(** complete characterisation of the outcome *)
Lemma norm_layout_cases shape g ya :
  match norm_layout shape g ya with
  | Ok (L2d, dims) => exists h w, shape = [h; w] /\ g = (h, w) /\ dims = (1, h, w)
  | Ok (LBandLast, dims) =>
      exists h w nb, shape = [h; w; nb] /\ g = (h, w) /\ dims = (nb, h, w) /\ (ya = None \/ ya = Some 0)
  | Ok (LBandFirst, dims) =>
      exists nb h w, shape = [nb; h; w] /\ g = (h, w) /\ dims = (nb, h, w) /\
                     (ya = None /\ (nb, h) <> (h, w) \/ exists v, ya = Some v /\ v <> 0)
  | Err EValue =>
      (length shape <> 2%nat /\ length shape <> 3%nat) \/
      exists d0 d1 d2, shape = [d0; d1; d2] /\ g <> (d1, d2) /\
                       (ya = None /\ g <> (d0, d1) \/ exists v, ya = Some v /\ v <> 0)
  | Err (EAssert _) =>
      (exists h w, shape = [h; w] /\ g <> (h, w)) \/
      (exists d0 d1 d2, shape = [d0; d1; d2] /\ ya = Some 0 /\ g <> (d0, d1))
  | Err _ => False
  end.
Proof.
  destruct shape as [|d0 [|d1 [|d2 [|d3 r]]]]; simpl; try (left; split; discriminate).
  - destruct (zz_eq g (d0, d1)) eqn:E.
    + apply zz_eq_true in E. exists d0, d1. auto.
    + apply zz_eq_false in E. left. exists d0, d1. auto.
  - destruct ya as [v|].
    + destruct (v =? 0) eqn:Ev.
      * apply Z.eqb_eq in Ev; subst v. destruct (zz_eq g (d0, d1)) eqn:E.
        -- apply zz_eq_true in E. exists d0, d1, d2. split; [reflexivity|]. split; [exact E|]. split; [reflexivity|]. right; reflexivity.
        -- apply zz_eq_false in E. right. exists d0, d1, d2. split; [reflexivity|]. split; [reflexivity | exact E].
      * apply Z.eqb_neq in Ev. destruct (zz_eq (d1, d2) g) eqn:E; simpl.
        -- apply zz_eq_true in E. exists d0, d1, d2. split; [reflexivity|]. split; [congruence|]. split; [reflexivity|].
           right. exists v. split; [reflexivity | exact Ev].
        -- apply zz_eq_false in E. right. exists d0, d1, d2. split; [reflexivity|]. split; [congruence|].
           right. exists v. split; [reflexivity | exact Ev].
    + destruct (zz_eq (d0, d1) g) eqn:E.
      * apply zz_eq_true in E. rewrite (proj2 (zz_eq_true g (d0, d1)) (eq_sym E)).
        exists d0, d1, d2. split; [reflexivity|]. split; [congruence|]. split; [reflexivity|]. left; reflexivity.
      * apply zz_eq_false in E. destruct (zz_eq (d1, d2) g) eqn:E2; simpl.
        -- apply zz_eq_true in E2. subst g. exists d0, d1, d2. split; [reflexivity|]. split; [reflexivity|].
           split; [reflexivity|]. left. split; [reflexivity | exact E].
        -- apply zz_eq_false in E2. right. exists d0, d1, d2. split; [reflexivity|]. split; [congruence|].
           left. split; [reflexivity | congruence].
Qed.

(** * 3. the layout map is a bijection between output samples and input positions *)
Definition sample_in_range (dims : Z * Z * Z) (b y x : Z) : Prop :=
  let '(nb, h, w) := dims in 0 <= b < nb /\ 0 <= y < h /\ 0 <= x < w.

Definition layout_dims_ok (l : layout) (dims : Z * Z * Z) : Prop :=
  let '(nb, h, w) := dims in match l with L2d => nb = 1 | _ => True end.

Lemma src_index_bound l nb h w b y x :
  layout_dims_ok l (nb, h, w) -> sample_in_range (nb, h, w) b y x ->
  0 <= src_index l (nb, h, w) b y x < nb * h * w.
Proof.
  unfold sample_in_range, layout_dims_ok, src_index. intros Hl (Hb & Hy & Hx). destruct l.
  - subst nb. nia.
  - pose proof (flat_arith_bound nb h w b y x Hb Hy Hx). nia.
  - pose proof (flat_arith_bound h w nb y x b Hy Hx Hb). nia.
Qed.

Lemma src_index_inj l nb h w b y x b' y' x' :
  layout_dims_ok l (nb, h, w) ->
  sample_in_range (nb, h, w) b y x -> sample_in_range (nb, h, w) b' y' x' ->
  src_index l (nb, h, w) b y x = src_index l (nb, h, w) b' y' x' ->
  (b, y, x) = (b', y', x').
Proof.
  unfold sample_in_range, layout_dims_ok, src_index. intros Hl (Hb & Hy & Hx) (Hb' & Hy' & Hx') E. destruct l.
  - subst nb. assert (b = 0) by lia. assert (b' = 0) by lia. subst.
    destruct (flat_arith_inv h w 0 y x ltac:(lia) Hy Hx) as (_ & B1 & C1).
    destruct (flat_arith_inv h w 0 y' x' ltac:(lia) Hy' Hx') as (_ & B2 & C2).
    cbn zeta in *. replace (0 * (h * w) + y * w + x) with (y * w + x) in * by ring.
    replace (0 * (h * w) + y' * w + x') with (y' * w + x') in * by ring.
    rewrite E in *. congruence.
  - destruct (flat_arith_inv h w b y x ltac:(lia) Hy Hx) as (A1 & B1 & C1).
    destruct (flat_arith_inv h w b' y' x' ltac:(lia) Hy' Hx') as (A2 & B2 & C2).
    cbn zeta in *.
    replace (b * (h * w) + y * w + x) with ((b * h + y) * w + x) in * by ring.
    replace (b' * (h * w) + y' * w + x') with ((b' * h + y') * w + x') in * by ring.
    rewrite E in *. congruence.
  - destruct (flat_arith_inv w nb y x b ltac:(lia) Hx Hb) as (A1 & B1 & C1).
    destruct (flat_arith_inv w nb y' x' b' ltac:(lia) Hx' Hb') as (A2 & B2 & C2).
    cbn zeta in *.
    replace (y * (w * nb) + x * nb + b) with ((y * w + x) * nb + b) in * by ring.
    replace (y' * (w * nb) + x' * nb + b') with ((y' * w + x') * nb + b') in * by ring.
    rewrite E in *. congruence.
Qed.

Lemma src_index_surj l nb h w t :
  layout_dims_ok l (nb, h, w) -> 0 <= nb -> 0 <= h -> 0 <= w -> 0 <= t < nb * h * w ->
  exists b y x, sample_in_range (nb, h, w) b y x /\ src_index l (nb, h, w) b y x = t.
Proof.
  unfold sample_in_range, layout_dims_ok, src_index. intros Hl Nb Nh Nw Ht.
  assert (0 < nb /\ 0 < h /\ 0 < w) as (Pb & Ph & Pw).
  { destruct (Z.eq_dec nb 0), (Z.eq_dec h 0), (Z.eq_dec w 0); subst; try lia; nia. }
  destruct l.
  - subst nb. pose proof Ph as Hh. pose proof Pw as Hw.
    destruct (unflat_arith 1 h w t ltac:(lia) Hh Hw) as (A & B & C & D). cbn zeta in *.
    exists 0, ((t / w) mod h), (t mod w). repeat split; try lia. Show.
Abort.
