import numpy as np, xarray as xr
from affine import Affine
from odc.geo.geobox import GeoBox
from odc.geo.xr import xr_coords
for (h,w) in [(1,130),(2,130),(130,1),(1,1),(3,3)]:
    g = GeoBox((h,w), Affine(3,4,10,4,-3,50), 'epsg:32633')
    c = xr_coords(g)
    xx = xr.DataArray(np.zeros((h,w)), dims=g.dimensions, coords=c)
    g2 = xx.odc.geobox
    print((h,w), g2 == g, None if g2 is None else tuple(g2.transform)[:6], {k:(v.dims, v.attrs.get('GeoTransform')) for k,v in c.items()} if h==1 else '')
    g = GeoBox((h,w), Affine(4,0,10,0,-4,50), 'epsg:32633')
    xx = xr.DataArray(np.zeros((h,w)), dims=g.dimensions, coords=xr_coords(g))
    print('  northup', xx.odc.geobox == g)
