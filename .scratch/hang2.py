import sys, tempfile
sys.path.insert(0,'/tmp/vw/c05c15/tools')
from vlib import cogio
from props import c05
import faulthandler
faulthandler.dump_traceback_later(20, exit=True)
for ax,S in (('YX',1),('YXS',4),('YXS',2),('SYX',3)):
  for dt in ('uint8','int16','float64'):
    cfg={'S': S, 'axis': ax, 'dtype': dt, 'H': 63, 'W': 64, 'stats': False, 'chunks': (32, 9), 'blocksize': [(32, 16), 32, 16], 'compression': 'none', 'nodata': 3, 'scheduler': 'sync', 'name': 'x'}
    rec = cogio.run_writer(cfg, tempfile.mkdtemp())
    print(ax, S, dt, c05.check_file(cfg, rec)[:2])
