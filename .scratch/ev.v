From Coq Require Import ZArith List Bool Lia Permutation.
From OG Require Import Base.Result Base.ListSel Model.Roi Model.CogLayout
  Proofs.CogLayoutProofs Proofs.CogTilesProofs Proofs.CogOffsetsProofs.
Import ListNotations.
Open Scope Z_scope.
Definition mm := metas_of YX 1 [Level (56, 72) (32, 32); Level (28, 36) (16, 16);
                           Level (14, 18) (16, 16); Level (7, 9) (16, 16)].
Definition stream := map (fun t => (t, if lvl t =? 3 then 0 else 10 + lvl t)) (writer_order mm).
Eval vm_compute in (length stream, patch_hdr_tags mm stream 1000).
Eval vm_compute in writer_order (metas_of SYX 2 [Level (16, 32) (16, 16); Level (8, 16) (16, 16)]).
