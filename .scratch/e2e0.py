import numpy as np, dask, dask.array as da, tifffile, rasterio, os, tempfile
from odc.geo.geobox import GeoBox
from odc.geo.xr import xr_zeros, wrap_xr
from odc.geo.cog._tifffile import save_cog_with_dask
import xarray as xr

gbox = GeoBox.from_bbox((0,0,70,50), "epsg:3857", resolution=1)
print(gbox.shape)
img = np.arange(50*70, dtype='uint16').reshape(50,70)
xx = wrap_xr(img, gbox).chunk({'y':32,'x':32})
d = tempfile.mkdtemp()
dst = os.path.join(d, "a.tif")
r = save_cog_with_dask(xx, dst, blocksize=[32,16], compression='deflate')
with dask.config.set(scheduler='synchronous'):
    out = r.compute()
print(out)
with tifffile.TiffFile(dst) as tf:
    for p in tf.pages:
        print(p.shape, p.tile, [p.tags[t].value for t in (256,257,322,323)], p.tags[324].value, p.tags[325].value)
    a = tf.pages[0].asarray()
    print((a[:50,:70]==img).all(), a.shape)
with rasterio.open(dst) as f:
    print(f.shape, f.overviews(1), f.transform, f.crs, f.nodata)
    print((f.read(1)[:50,:70]==img).all())
print(os.path.getsize(dst))
