#!/bin/bash
# usage: mut.sh PROP name file 'python-replace-old' 'new'
prop=$1; name=$2; file=$3; old=$4; new=$5
cd /tmp/rw/c05c15
/venv/bin/python - "$file" "$old" "$new" <<'PY'
import sys
p, old, new = sys.argv[1:4]
s = open(p).read()
assert s.count(old) >= 1, f"pattern not found: {old}"
s = s.replace(old, new, 1)
open(p, 'w').write(s)
PY
[ $? -ne 0 ] && { echo "$name: PATTERN NOT FOUND"; git checkout -- .; exit; }
cd /tmp/vw/c05c15
res=$(VERIF_REPO=/tmp/rw/c05c15 timeout 900 ./check $prop --tier quick 2>&1 | grep -E "^VIOLATION|^\[$prop\] tier" | head -3)
echo "== $name: $res"
rp=$(echo "$res" | grep -o 'replay=[^ ]*' | head -1 | cut -d= -f2)
[ -n "$rp" ] && /venv/bin/python -c "import json,sys; d=json.load(open('$rp')); print('   key', d.get('key'), '|', str(d.get('what', d.get('broken_obligations')))[:300])"
cd /tmp/rw/c05c15 && git checkout -- .
