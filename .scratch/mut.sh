#!/bin/bash
# usage: mut.sh <prop> <file> <python-regex-old> <new> <tests...>
prop=$1; file=$2; old=$3; new=$4; shift 4
cd /tmp/rw/c12c14
/venv/bin/python - "$file" "$old" "$new" <<'PY'
import sys
f,old,new=sys.argv[1:4]
s=open(f).read()
assert s.count(old)==1, (s.count(old), old)
open(f,'w').write(s.replace(old,new))
PY
[ $? -ne 0 ] && { echo "MUTATION NOT APPLIED"; git checkout -- .; exit 1; }
echo "--- mutation: $old  ==>  $new"
PYTHONPATH=/tmp/rw/c12c14 /venv/bin/python -m pytest -q -x -p no:cacheprovider "$@" 2>&1 | tail -2
cd /tmp/vw/c12c14 && VERIF_REPO=/tmp/rw/c12c14 ./check $prop --tier quick 2>&1 | grep -E "VIOLATION|^\[C" | head -3
for f in evidence/replays/$prop-*.json; do [ -f "$f" ] && /venv/bin/python -c "
import json,sys;d=json.load(open('$f'));print('   ',d.get('key'),'|',str(d.get('what') or d.get('broken_obligations'))[:300])"; done
cd /tmp/rw/c12c14 && git checkout -- .
