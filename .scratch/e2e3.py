import sys, time, tempfile, itertools, traceback
sys.path.insert(0, '/tmp/vw/c05c15/tools')
from vlib import cogio
import numpy as np
d = tempfile.mkdtemp()
base = dict(S=1, axis='YX', dtype='uint8', compression='deflate', stats=False)
cfgs = [dict(base, name='s1', H=16, W=300, chunks=(16,16), blocksize=[16]),
        dict(base, name='s2', H=48, W=520, chunks=(48,48), blocksize=[48,16]),
        dict(base, name='s3', H=1, W=1, chunks=(1,1)),
        dict(base, name='s4', H=2, W=2, chunks=(1,1)),
        dict(base, name='s5', H=17, W=300, chunks=(16,16), blocksize=[16]),
        dict(base, name='s6', H=40, W=300, chunks=(40,100), blocksize=[16]),
        ]
for cfg in cfgs:
    try:
        r = cogio.run_writer(cfg, d)
        ifds = cogio.read_ifds(r['path'])
        a = cogio.decode_tifffile(r['path'])
        H,W=cfg['H'],cfg['W']
        print(cfg['name'], 'ok', (a[:H,:W]==r['pix']).all(), [(i['length'],i['width'],i['tile_l'],i['tile_w']) for i in ifds])
    except Exception as e:
        print(cfg['name'], 'EXC', type(e).__name__, str(e)[:300])
        traceback.print_exc(limit=-3)
