import sys, time, tempfile, signal, traceback, faulthandler
sys.path.insert(0,'/tmp/vw/c05c15/tools')
from vlib import cogio
faulthandler.dump_traceback_later(8, exit=True)
cfg={'S': 4, 'axis': 'YXS', 'dtype': 'int16', 'H': 63, 'W': 64, 'stats': False, 'chunks': (32, 9), 'blocksize': [(32, 16), 32, 16], 'compression': 'none', 'nodata': -3, 'scheduler': sys.argv[1], 'writes_per_chunk': 1, 'name': 'e118'}
rec = cogio.run_writer(cfg, tempfile.mkdtemp())
print('done', len(rec['observed']))
