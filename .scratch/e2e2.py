import sys, tempfile, traceback
sys.path.insert(0, '/tmp/vw/c05c15/tools')
from vlib import cogio
d = tempfile.mkdtemp()
base = dict(H=50, W=70, S=1, axis='YX', dtype='uint16', chunks=(32,32), blocksize=[32,16], compression='none', stats=False, name='l')
try:
    cogio.run_writer(base, d)
except Exception:
    traceback.print_exc()
from tifffile import TIFF, COMPRESSION
print(TIFF.COMPRESSORS[1], TIFF.COMPRESSORS[8])
