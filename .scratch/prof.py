import sys, time, tempfile
sys.path.insert(0,'/tmp/vw/c05c15/tools')
from vlib import core
from props import c05
from pathlib import Path
tier = sys.argv[1]
out = core.Outcome.__new__(core.Outcome)
out.prop='C05x'; out.tier=tier; out.obligations=[]; out.violations=[]; out.evaluations=0; out.nontrivial=set(); out.samples=[]; out.dist={}; out.t0=time.time()
t=time.time(); cases, pr = c05.gen_cases(out, tier); print('gen_cases', len(cases), time.time()-t)
