import sys, time, tempfile, pathlib, collections
sys.path.insert(0, 'tools')
from vlib import core
from props import c12
out = core.Outcome("C12", "quick")
t=time.time(); cases = c12.gen_cases(out, "quick"); print("gen", time.time()-t, len(cases))
by = collections.defaultdict(list)
for c in cases: by[c.split()[0]].append(c)
for k, v in by.items():
    with tempfile.TemporaryDirectory() as d:
        t=time.time()
        core.coq_eval_failures(["Base.Result", "Base.QMinMax", "Base.ZRange", "Model.TileQuery", "Model.TileQueryCases"], "case", "check", v, pathlib.Path(d), shard=350)
        print(k, len(v), round(time.time()-t,1), "s; text size", sum(map(len,v)))
