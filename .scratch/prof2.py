import sys, time, tempfile
sys.path.insert(0,'/tmp/vw/c05c15/tools')
from vlib import core, cogio
from props import c05
tier = sys.argv[1]
work = tempfile.mkdtemp()
tt=time.time()
slow=[]
for cfg in c05.e2e_configs(tier):
    t=time.time()
    try:
        rec = cogio.run_writer(cfg, work)
        t1=time.time()-t
        ok, detail, ifds = c05.check_file(cfg, rec)
        if not ok: print('FAIL', cfg, detail)
    except Exception as e:
        print('EXC', cfg, type(e).__name__, e)
        t1=time.time()-t
    dt=time.time()-t
    if dt>1.0: slow.append((round(dt,2), round(t1,2), cfg))
print('total', time.time()-tt)
for s in sorted(slow, key=lambda x: -x[0])[:10]: print(s)
