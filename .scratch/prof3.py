import sys, time, tempfile, signal
sys.path.insert(0,'/tmp/vw/c05c15/tools')
from vlib import core, cogio
from props import c05
tier = sys.argv[1]
work = tempfile.mkdtemp()
class TO(Exception): pass
def h(*a): raise TO()
signal.signal(signal.SIGALRM, h)
tt=time.time()
for cfg in c05.e2e_configs(tier):
    t=time.time()
    signal.alarm(20)
    try:
        rec = c05.run_limited(cfg, work, 20)
        ok, detail, ifds = c05.check_file(cfg, rec)
        if not ok: print('FAIL', cfg, detail, flush=True)
    except c05.WriterTimeout:
        print('TIMEOUT', cfg, flush=True)
    except Exception as e:
        print('EXC', cfg, type(e).__name__, e, flush=True)
    signal.alarm(0)
    dt=time.time()-t
    if dt>1.5: print('slow', round(dt,2), cfg, flush=True)
print('total', time.time()-tt)
