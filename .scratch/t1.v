From Coq Require Import ZArith List Bool Lia Permutation.
From OG Require Import Base.Result Base.ListSel Model.Roi Proofs.RoiProofs Model.CogLayout.
Open Scope Z_scope.
Goal forall block p, 0 <= block ->
  let c := novr_pos block p in
  0 <= c /\ Zpos p / 2 ^ c <= block /\ (forall k, 0 <= k < c -> block < Zpos p / 2 ^ k).
Proof.
  intros block p Hb. induction p as [q IH | q IH |]; cbn zeta in *; simpl novr_pos.
  - destruct (block <? Zpos (xI q)) eqn:E.
    + apply Z.ltb_lt in E. destruct IH as (H0 & H1 & H2). Show.
