import sys, time, tempfile, itertools, traceback
sys.path.insert(0, '/tmp/vw/c05c15/tools')
from vlib import cogio
import numpy as np
d = tempfile.mkdtemp()
cfgs = []
base = dict(H=50, W=70, S=1, axis='YX', dtype='uint16', chunks=(32,32), blocksize=[32,16], compression='deflate', stats=False)
cfgs.append(dict(base, name='a'))
cfgs.append(dict(base, name='b', axis='YXS', S=3, dtype='uint8'))
cfgs.append(dict(base, name='c', axis='SYX', S=2, dtype='int16'))
cfgs.append(dict(base, name='d', axis='SYX', S=3, dtype='float32', chunks=(20,50), band_chunk=1))
cfgs.append(dict(base, name='e', H=1, W=70))
cfgs.append(dict(base, name='f', H=50, W=1))
cfgs.append(dict(base, name='g', H=5, W=7, blocksize=None))
cfgs.append(dict(base, name='h', stats=True, nodata=0))
cfgs.append(dict(base, name='i', scheduler='threads:4', dtype='float64'))
cfgs.append(dict(base, name='j', scheduler='shuffle:3', dtype='int8'))
cfgs.append(dict(base, name='k', compression='zstd'))
cfgs.append(dict(base, name='l', compression='none'))
cfgs.append(dict(base, name='m', axis='YXS', S=2, dtype='uint8'))
cfgs.append(dict(base, name='n', axis='SYX', S=2, W=3, dtype='uint8'))
cfgs.append(dict(base, name='o', axis='SYX', S=4, H=4, W=4, dtype='uint8', chunks=(4,4)))
cfgs.append(dict(base, name='p', bigtiff=False))
cfgs.append(dict(base, name='q', min_write_sz=64, spill_sz=100, compression='none', scheduler='shuffle:5'))
for cfg in cfgs:
    t0=time.time()
    try:
        r = cogio.run_writer(cfg, d)
        ifds = cogio.read_ifds(r['path'])
        a = cogio.decode_tifffile(r['path'])
        b, info = cogio.decode_rasterio(r['path'])
        pix = r['pix']
        ax = cfg['axis']
        H, W = cfg['H'], cfg['W']
        if ax=='YX': ok_t = (a[:H,:W]==pix).all(); ok_r=(b[0,:H,:W]==pix).all()
        elif ax=='YXS': ok_t = (a[:H,:W,:]==pix).all(); ok_r=(b.transpose(1,2,0)[:H,:W]==pix).all()
        else: ok_t = (a[:,:H,:W]==pix).all(); ok_r=(b[:,:H,:W]==pix).all()
        print(cfg['name'], 'ok', ok_t, ok_r, a.shape, b.shape, [ (i['length'],i['width'],i['tile_l'],i['tile_w'],i['spp'],i['planar']) for i in ifds], 'hdr', r['hdr_len'], 'n_obs', len(r['observed']), info['overviews'], info['nodata'], round(time.time()-t0,2))
    except Exception as e:
        print(cfg['name'], 'EXC', type(e).__name__, str(e)[:300])
        traceback.print_exc(limit=4)
