import numpy as np, rasterio, xarray as xr, tempfile, os, warnings, time
from rasterio.io import MemoryFile
from affine import Affine
from odc.geo.geobox import GeoBox
from odc.geo.xr import xr_coords
from odc.geo.cog._rio import _write_cog, write_cog, to_cog, write_cog_layers
print(rasterio.__gdal_version__)
g = GeoBox((20,30), Affine(3,4,10,4,-3,50), 'epsg:32633')
for dt in ['int8','uint8','int16','uint16','int32','uint32','float32','float64','int64','uint64']:
    pix = (np.arange(600).reshape(20,30) % 100).astype(dt)
    xx = xr.DataArray(pix, dims=('y','x'), coords=xr_coords(g), attrs={'nodata': 3})
    try:
        b = to_cog(xx, blocksize=64)
        with MemoryFile(b) as m, m.open() as f:
            a = f.read(1); print(dt, f.dtypes, (a==pix).all(), f.nodata, f.block_shapes, f.is_tiled, tuple(f.transform)[:6], f.crs)
    except Exception as e:
        print(dt, type(e).__name__, e)
# external overviews
g0 = GeoBox((64,96), Affine(4,0,1000,0,-4,2000), 'epsg:3857')
def mk(gb, k):
    return xr.DataArray((np.arange(gb.shape[0]*gb.shape[1]).reshape(gb.shape)+k).astype('int16'), dims=('y','x'), coords=xr_coords(gb))
x0 = mk(g0,0); x1 = mk(g0.zoom_out(2),1000); x2 = mk(g0.zoom_out(4), 2000)
t=time.time()
b = to_cog(x0, overviews=[x1,x2], blocksize=32)
print('layers', time.time()-t)
with MemoryFile(b) as m:
    with m.open() as f: print(f.overviews(1), f.block_shapes, (f.read(1)==x0.data).all())
    with m.open(overview_level=0) as f: print(f.shape, (f.read(1)==x1.data).all(), f.block_shapes)
    with m.open(overview_level=1) as f: print(f.shape, (f.read(1)==x2.data).all())
d = tempfile.mkdtemp(); p = os.path.join(d,'a.tif')
print(write_cog(x0, p), os.path.getsize(p))
try: write_cog(x0, p)
except Exception as e: print(type(e).__name__, isinstance(e, OSError), e)
try: write_cog_layers([x0,x1], p)
except Exception as e: print(type(e).__name__, e)
print(write_cog_layers([], p), write_cog_layers([x0,x1], p, overwrite=True))
