#!/bin/bash
# usage: dbg.sh file line  -> compile the file up to the given line and Show goals
f=$1; n=$2
head -n $n $f > /tmp/vw/c05c15/.scratch/Dbg.v
echo "Show. Abort." >> /tmp/vw/c05c15/.scratch/Dbg.v
cd /tmp/vw/c05c15/coq && timeout 120 coqc -q -Q . OG /tmp/vw/c05c15/.scratch/Dbg.v 2>&1 | head -${3:-60}
