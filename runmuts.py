import subprocess, sys, json, glob, importlib.util
spec = importlib.util.spec_from_file_location("m", "/tmp/vw/c04/muts.py")
src = open("/tmp/vw/c04/muts.py").read()
ns = {}
exec(src[:src.index("import os")], ns)
for name, f, old, new in ns["MUTS"]:
    if name.split()[0] not in sys.argv[1:]: continue
    subprocess.run("git checkout -q -- .", shell=True, cwd="/tmp/rw/c04")
    p = "/tmp/rw/c04/" + f
    s = open(p).read(); assert old in s
    open(p, "w").write(s.replace(old, new, 1))
    r = subprocess.run("VERIF_REPO=/tmp/rw/c04 ./check C04 --tier quick 2>&1 | grep -v BROKEN | tail -2", shell=True, cwd="/tmp/vw/c04", capture_output=True, text=True)
    print("==", name); print(r.stdout.strip())
    for rp in sorted(glob.glob("/tmp/vw/c04/evidence/replays/C04-*.json")):
        d = json.load(open(rp)); print("   ", d.get("key"), "|", (d.get("what") or str(d.get("broken_obligations")))[:260])
    subprocess.run("git checkout -q -- .", shell=True, cwd="/tmp/rw/c04")
