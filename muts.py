import subprocess, sys
MUTS = [
 ("A int32 regression", "odc/geo/roi.py", 'np.asarray([0, *idx], dtype="int64").cumsum(dtype="int64")', 'np.asarray([0, *idx], dtype="int32").cumsum(dtype="int32")'),
 ("B negative check removed in getitem", "odc/geo/roi.py", '        if any(i.start < 0 for i in idx):\n            # negative offsets would wrap around the offsets array\n            raise IndexError(f"Index {idx} is out of range")\n', ''),
 ("C tile_shape negative wrap removed", "odc/geo/roi.py", '            if i < 0:  # numpy style index from the right\n                i = n + i\n            if 0 <= i < n:\n                return int(a[i + 1]) - int(a[i])', '            if 0 <= i < n:\n                return int(a[i + 1]) - int(a[i])'),
 ("D float ceil regression", "odc/geo/roi.py", 'ny, nx = (-(-N // n) for N, n in zip(base_shape.yx, tile_shape.yx))', 'ny, nx = (int(__import__("math").ceil(float(N) / n)) for N, n in zip(base_shape.yx, tile_shape.yx))'),
 ("E vt locate upper bound", "odc/geo/roi.py", '        if y < 0 or y >= NY or x < 0 or x >= NX:\n            raise IndexError()\n        y, x = (', '        if y < 0 or y >= NY or x < 0 or x > NX:\n            raise IndexError()\n        y, x = ('),
 ("F norm_roi postfix off by one", "odc/geo/_blocks.py", 'postfix = tuple(slice(0, n) for n in self._shape[self._axis + 2 :])\n            roi = (*prefix, *roi, *postfix)', 'postfix = tuple(slice(0, n) for n in self._shape[self._axis + 1 :])\n            roi = (*prefix, *roi, *postfix)'),
 ("G verify_shape swapped key", "odc/geo/_blocks.py", 'if yx_shape != (chy[iy], chx[ix]):', 'if yx_shape != (chy[iy], chx[iy]):'),
 ("H geoboxtiles crop keeps base", "odc/geo/geobox.py", 'gbox_new = self.base[self._tiles[roi]]', 'gbox_new = self.base'),
 ("I geoboxtiles clip wrong box", "odc/geo/geobox.py", 'return GeoboxTiles(self[roi], None, _tiles=tiles), new_idx', 'return GeoboxTiles(self.base, None, _tiles=tiles), new_idx'),
 ("J tiles chunks count", "odc/geo/roi.py", '(ny,) * (NY - 1) + (ny_,),', '(ny,) * (NY - 1) + (ny,),'),
 ("K tile_sz negative wrap off by one", "odc/geo/roi.py", '            if i < 0:  # numpy style index from the right\n                i = n + i\n            if 0 <= i < n - 1:', '            if i < 0:  # numpy style index from the right\n                i = n + i + 1\n            if 0 <= i < n - 1:'),
 ("L assembler squeeze includes YX", "odc/geo/_blocks.py", 'if not isinstance(s, slice) and idx not in YX', 'if not isinstance(s, slice)'),
 ("M assembler default fill", "odc/geo/_blocks.py", 'elif ndim < self.ndim:\n            roi = (*roi, *tuple(slice(0, n) for n in self._shape[ndim:]))', 'elif ndim < self.ndim:\n            roi = (*roi, *tuple(slice(0, n) for n in self._shape[ndim - 1:]))'),
 ("N vt crop no negative check", "odc/geo/roi.py", '        if any(s.start < 0 for s in roi):\n            raise IndexError(f"Index {roi} is out of range")\n', ''),
 ("O clip max wrong", "odc/geo/roi.py", 'roi = np.s_[y1 : y2 + 1, x1 : x2 + 1]', 'roi = np.s_[y1 : y2 + 1, x1 : x2 + 2]'),
]
import os
sel = sys.argv[1:] 
for name, f, old, new in MUTS:
    if sel and name.split()[0] not in sel: continue
    subprocess.run("git checkout -q -- .", shell=True, cwd="/tmp/rw/c04")
    p = "/tmp/rw/c04/" + f
    s = open(p).read()
    if old not in s:
        print(name, ": PATTERN NOT FOUND"); continue
    open(p, "w").write(s.replace(old, new, 1))
    r = subprocess.run("PYTHONPATH=/tmp/rw/c04 timeout 900 /venv/bin/python -m pytest -q -p no:cacheprovider tests/test_roi.py tests/test_blocks.py tests/test_geoboxtiles.py tests/test_dask_interop.py --deselect tests/test_geoboxtiles.py::test_geoboxtiles_intersect 2>&1 | tail -1", shell=True, cwd="/tmp/rw/c04", capture_output=True, text=True)
    print(name, "| tests:", r.stdout.strip())
subprocess.run("git checkout -q -- .", shell=True, cwd="/tmp/rw/c04")
